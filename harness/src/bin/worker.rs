//! worker: runs one shard of one property's jobs, replays a case, or lists jobs.
//!
//!   worker run --prop C01 --tier quick --seed N --shard I --nshards N --out DIR
//!   worker replay FILE [--trace] [--prop Cxx]
//!   worker list --prop C01 --tier quick

use itree_verif::case::{splitmix, Case, Fnv};
use itree_verif::enumerate::enumerate;
use itree_verif::json::J;
use itree_verif::props::{eval_case, jobs, names_of, EvalOpts, Job, JobKind, Tier};
use itree_verif::run::{install_panic_hook, prop_num, Failure, Outcome};
use proptest::strategy::{Strategy, ValueTree};
use proptest::test_runner::{Config, RngAlgorithm, TestRng, TestRunner};
use std::collections::{BTreeMap, HashSet};
use std::fs::File;
use std::io::{Seek, SeekFrom, Write};
use std::path::PathBuf;
use std::time::Instant;

struct Journal {
    file: Option<File>,
}

impl Journal {
    fn write(&mut self, case: &Case) {
        if let Some(f) = self.file.as_mut() {
            let names = names_of(&case.family).unwrap_or(&[]);
            let text = case.to_text(names);
            let _ = f.set_len(0);
            let _ = f.seek(SeekFrom::Start(0));
            let _ = f.write_all(text.as_bytes());
            let _ = f.flush();
        }
    }
}

#[derive(Default)]
struct JobStats {
    name: String,
    kind: &'static str,
    evaluations: u64,
    nontrivial: HashSet<u64>,
    classes: BTreeMap<&'static str, u64>,
    blocked: u64,
    blocked_sample: Option<String>,
    degraded_ops: u64,
    ops: u64,
    observations: u64,
    injections: u64,
    states: u64,
    transitions: u64,
    exhaustive: bool,
    samples: Vec<Case>,
    rule: String,
    required: Vec<&'static str>,
    max_depth: u64,
    wall_ms: u64,
}

struct Found {
    case: Case,
    failure: Failure,
    job: String,
}

fn text_of(case: &Case) -> String {
    case.to_text(names_of(&case.family).unwrap_or(&[]))
}

fn account(job: &Job, st: &mut JobStats, case: &Case, o: &Outcome) {
    st.evaluations += 1;
    st.ops += o.ops_run as u64;
    st.degraded_ops += o.degraded as u64;
    st.observations += o.observations as u64;
    st.injections += o.injections as u64;
    for c in &o.classes {
        *st.classes.entry(c).or_insert(0) += 1;
    }
    if let Some(b) = &o.blocked {
        st.blocked += 1;
        if st.blocked_sample.is_none() {
            st.blocked_sample = Some(b.clone());
        }
    }
    if o.failure.is_none() && job.rule.holds(o) {
        let h = case.hash64();
        if st.nontrivial.insert(h) && st.samples.len() < 2 {
            st.samples.push(case.clone());
        }
    }
}

/// Work budget of one minimisation, in operations executed (a bulk fill of n entries counts n):
/// keeps the shrinking of cases that build huge structures within minutes. Deterministic (no clock);
/// when it is used up every further candidate counts as "does not fail", which ends the search.
static SHRINK_WORK: std::sync::atomic::AtomicI64 = std::sync::atomic::AtomicI64::new(i64::MAX);
const SHRINK_WORK_BUDGET: i64 = 15_000_000;

fn case_cost(case: &Case) -> i64 {
    let names = names_of(&case.family).unwrap_or(&[]);
    case.ops.iter().map(|o| 1 + if names.get(o.kind as usize) == Some(&"bulk") { o.args[0].rem_euclid(4_000_001) } else { 0 }).sum()
}

fn fails_same(case: &Case, pn: u32, journal: &mut Journal) -> Option<Failure> {
    use std::sync::atomic::Ordering;
    if SHRINK_WORK.fetch_sub(case_cost(case), Ordering::Relaxed) <= 0 {
        return None;
    }
    journal.write(case);
    let o = eval_case(case, EvalOpts::default());
    match o.failure {
        Some(f) if f.prop == pn => Some(f),
        _ => None,
    }
}

/// greedy one-op-at-a-time deletion to a fixpoint
fn ddmin_ops(mut case: Case, pn: u32, journal: &mut Journal, budget: &mut u32) -> (Case, Failure) {
    SHRINK_WORK.store(SHRINK_WORK_BUDGET.max(2 * case_cost(&case) + 1), std::sync::atomic::Ordering::Relaxed);
    let mut failure = fails_same(&case, pn, journal).expect("ddmin starts from a failing case");
    // cut everything after the failing op first
    if failure.op_index + 1 < case.ops.len() {
        let mut c = case.clone();
        c.ops.truncate(failure.op_index + 1);
        if let Some(f) = fails_same(&c, pn, journal) {
            case = c;
            failure = f;
        }
    }
    let mut changed = true;
    while changed && *budget > 0 {
        changed = false;
        // try removing chunks, then single ops
        let mut chunk = (case.ops.len() / 2).max(1);
        while chunk >= 1 && *budget > 0 {
            let mut i = 0;
            while i + chunk <= case.ops.len() && *budget > 0 {
                let mut c = case.clone();
                c.ops.drain(i..i + chunk);
                *budget -= 1;
                if let Some(f) = fails_same(&c, pn, journal) {
                    case = c;
                    failure = f;
                    changed = true;
                } else {
                    i += 1;
                }
            }
            if chunk == 1 {
                break;
            }
            chunk /= 2;
        }
    }
    // simplify the configuration
    for (key, simple) in [("clock0", None), ("cap", Some("8")), ("snap", None), ("val", Some("u64"))] {
        if case.get(key).is_none() || *budget == 0 {
            continue;
        }
        let mut c = case.clone();
        match simple {
            None => c.cfg.retain(|(k, _)| k != key),
            Some(v) => {
                if c.get(key) == Some(v) {
                    continue;
                }
                c.set(key, v);
            }
        }
        *budget -= 1;
        if let Some(f) = fails_same(&c, pn, journal) {
            case = c;
            failure = f;
        }
    }
    // shrink arguments towards zero
    let mut changed = true;
    while changed && *budget > 0 {
        changed = false;
        for i in 0..case.ops.len() {
            for a in 0..itree_verif::case::NARGS {
                let v = case.ops[i].args[a];
                if v == 0 {
                    continue;
                }
                for cand in [0, v / 2, v - v.signum()] {
                    if cand == v || *budget == 0 {
                        continue;
                    }
                    let mut c = case.clone();
                    c.ops[i].args[a] = cand;
                    *budget -= 1;
                    if let Some(f) = fails_same(&c, pn, journal) {
                        case = c;
                        failure = f;
                        changed = true;
                        break;
                    }
                }
            }
        }
    }
    (case, failure)
}

fn shrink_tree<T: ValueTree<Value = Case>>(tree: &mut T, pn: u32, journal: &mut Journal, first: Failure) -> (Case, Failure, u32) {
    SHRINK_WORK.store(SHRINK_WORK_BUDGET, std::sync::atomic::Ordering::Relaxed);
    let mut best = tree.current();
    let mut best_f = first;
    let mut steps = 0u32;
    let max_steps = 3000u32;
    'outer: loop {
        if steps >= max_steps || !tree.simplify() {
            break;
        }
        loop {
            steps += 1;
            let c = tree.current();
            if let Some(f) = fails_same(&c, pn, journal) {
                best = c;
                best_f = f;
                break;
            }
            if steps >= max_steps || !tree.complicate() {
                break 'outer;
            }
        }
    }
    (best, best_f, steps)
}

fn run_shard(pn: u32, tier: Tier, seed: u64, shard: usize, nshards: usize, out: &PathBuf) -> i32 {
    let t0 = Instant::now();
    std::fs::create_dir_all(out).ok();
    let jpath = out.join(format!("shard-{}.cur", shard));
    let mut journal = Journal { file: File::create(&jpath).ok() };
    let all = jobs(pn, tier);
    let mut stats: Vec<JobStats> = Vec::new();
    let mut found: Option<Found> = None;
    let mut shrink_steps = 0u32;
    let n_enum = all.iter().filter(|j| !matches!(j.kind, JobKind::Random { .. })).count().max(1);
    let mut enum_idx = 0usize;
    for job in all.iter() {
        let mut st = JobStats { name: job.name.clone(), rule: job.rule.text.to_string(), ..Default::default() };
        let tjob = Instant::now();
        if found.is_some() {
            break;
        }
        match &job.kind {
            JobKind::Random { strategy, cases } => {
                st.kind = "random (proptest)";
                let per = (*cases + nshards - 1) / nshards;
                let mut h = Fnv::new();
                h.bytes(job.name.as_bytes());
                h.u64(pn as u64);
                let s = splitmix(seed ^ splitmix(h.finish() ^ (shard as u64).wrapping_mul(0x9E37_79B9_7F4A_7C15)));
                let mut seed_bytes = [0u8; 32];
                for (i, chunk) in seed_bytes.chunks_mut(8).enumerate() {
                    chunk.copy_from_slice(&splitmix(s.wrapping_add(i as u64)).to_le_bytes());
                }
                let rng = TestRng::from_seed(RngAlgorithm::ChaCha, &seed_bytes);
                let cfg = Config { failure_persistence: None, ..Config::default() };
                let mut runner = TestRunner::new_with_rng(cfg, rng);
                for _ in 0..per {
                    let mut tree = match strategy.new_tree(&mut runner) {
                        Ok(t) => t,
                        Err(_) => continue,
                    };
                    let case = tree.current();
                    journal.write(&case);
                    let o = eval_case(&case, EvalOpts::default());
                    account(job, &mut st, &case, &o);
                    if let Some(f) = o.failure {
                        let fpn = f.prop;
                        let (c1, f1, steps) = shrink_tree(&mut tree, fpn, &mut journal, f);
                        let mut budget = 4000u32;
                        let (c2, f2) = ddmin_ops(c1, fpn, &mut journal, &mut budget);
                        let _ = f1;
                        shrink_steps = steps + (4000 - budget);
                        found = Some(Found { case: c2, failure: f2, job: job.name.clone() });
                        break;
                    }
                }
            }
            JobKind::Enumerate { spec } => {
                st.kind = "bounded-exhaustive enumeration";
                let mine = (nshards - 1 - (enum_idx % nshards)) == shard;
                enum_idx += 1;
                let _ = n_enum;
                if !mine {
                    continue;
                }
                let mut failing: Option<(Case, Failure)> = None;
                let res = {
                    let journal = &mut journal;
                    let st = &mut st;
                    let failing = &mut failing;
                    let mut eval = |c: &Case| {
                        journal.write(c);
                        eval_case(c, EvalOpts { trace: false, want_state: true, progress: false })
                    };
                    let mut on_case = |c: &Case, o: &Outcome| {
                        account(job, st, c, o);
                        if let Some(f) = &o.failure {
                            *failing = Some((c.clone(), f.clone()));
                            return false;
                        }
                        true
                    };
                    enumerate(spec, &mut eval, &mut on_case)
                };
                st.states = res.states as u64;
                st.transitions = res.transitions as u64;
                st.exhaustive = res.complete && failing.is_none();
                st.max_depth = res.max_depth as u64;
                if let Some((c, f)) = failing {
                    let mut budget = 4000u32;
                    let (c2, f2) = ddmin_ops(c, f.prop, &mut journal, &mut budget);
                    shrink_steps = 4000 - budget;
                    found = Some(Found { case: c2, failure: f2, job: job.name.clone() });
                }
            }
            JobKind::Sequences { base, alphabet, len } => {
                st.kind = "bounded-exhaustive histories (every operation sequence of one length)";
                let a = alphabet.len() as u64;
                let total = a.pow(*len as u32);
                let journal_all = std::env::var("VERIF_JOURNAL_ALL").map(|v| v == "1").unwrap_or(false);
                let mut case = base.clone();
                let mut idx = shard as u64;
                let mut complete = true;
                while idx < total {
                    case.ops.clear();
                    let mut x = idx;
                    for _ in 0..*len {
                        case.ops.push(alphabet[(x % a) as usize]);
                        x /= a;
                    }
                    // journal only now and then; when a shard dies the driver runs it again with
                    // VERIF_JOURNAL_ALL=1, which journals every history before it is executed
                    if journal_all || idx % 4096 < nshards as u64 {
                        journal.write(&case);
                    }
                    let o = eval_case(&case, EvalOpts::default());
                    st.evaluations += 1;
                    st.ops += o.ops_run as u64;
                    st.observations += o.observations as u64;
                    for c in &o.classes {
                        *st.classes.entry(c).or_insert(0) += 1;
                    }
                    if st.samples.len() < 2 && o.failure.is_none() && o.observations > 0 {
                        st.nontrivial.insert(case.hash64());
                        st.samples.push(case.clone());
                    }
                    if let Some(f) = o.failure {
                        journal.write(&case);
                        let mut budget = 600u32;
                        let (c2, f2) = ddmin_ops(case.clone(), f.prop, &mut journal, &mut budget);
                        shrink_steps = 600 - budget;
                        found = Some(Found { case: c2, failure: f2, job: job.name.clone() });
                        complete = false;
                        break;
                    }
                    idx += nshards as u64;
                }
                st.exhaustive = complete;
                st.transitions = st.evaluations;
            }
            JobKind::Fixed { cases, stop_on_first } => {
                st.kind = "fixed table (complete enumeration of a finite space)";
                let owner = nshards - 1 - (enum_idx % nshards);
                enum_idx += 1;
                let mut complete = true;
                for (i, case) in cases.iter().enumerate() {
                    let mine = if *stop_on_first { owner == shard } else { i % nshards == shard };
                    if !mine {
                        continue;
                    }
                    journal.write(case);
                    let o = eval_case(case, EvalOpts::default());
                    account(job, &mut st, case, &o);
                    if let Some(f) = o.failure {
                        let mut budget = 600u32;
                        let (c2, f2) = ddmin_ops(case.clone(), f.prop, &mut journal, &mut budget);
                        shrink_steps = 600 - budget;
                        found = Some(Found { case: c2, failure: f2, job: job.name.clone() });
                        complete = false;
                        break;
                    }
                }
                st.exhaustive = complete;
            }
        }
        st.required = job.required.clone();
        st.wall_ms = tjob.elapsed().as_millis() as u64;
        stats.push(st);
    }
    // journal no longer needed: normal completion
    drop(journal);
    let _ = std::fs::remove_file(&jpath);

    // ---- write shard report
    let mut root = J::obj();
    root.put("prop", J::s(itree_verif::run::prop_id(pn)));
    root.put("shard", J::UInt(shard as u64));
    root.put("nshards", J::UInt(nshards as u64));
    root.put("seed", J::UInt(seed));
    root.put("tier", J::s(if tier == Tier::Quick { "quick" } else { "thorough" }));
    root.put("wall_s", J::Float(t0.elapsed().as_secs_f64()));
    let mut jj = Vec::new();
    for st in &stats {
        let mut o = J::obj();
        o.put("name", J::s(st.name.clone()));
        o.put("kind", J::s(st.kind));
        o.put("rule", J::s(st.rule.clone()));
        o.put("evaluations", J::UInt(st.evaluations));
        o.put("nontrivial_hashes", J::Arr(st.nontrivial.iter().map(|h| J::s(format!("{:016x}", h))).collect()));
        let mut cl = J::obj();
        for (k, v) in &st.classes {
            cl.put(k, J::UInt(*v));
        }
        o.put("classes", cl);
        o.put("blocked", J::UInt(st.blocked));
        if let Some(b) = &st.blocked_sample {
            o.put("blocked_sample", J::s(b.clone()));
        }
        o.put("degraded_ops", J::UInt(st.degraded_ops));
        o.put("ops", J::UInt(st.ops));
        o.put("observations", J::UInt(st.observations));
        o.put("injections", J::UInt(st.injections));
        o.put("states", J::UInt(st.states));
        o.put("transitions", J::UInt(st.transitions));
        o.put("max_depth", J::UInt(st.max_depth));
        o.put("wall_ms", J::UInt(st.wall_ms));
        o.put("exhaustive", J::Bool(st.exhaustive));
        o.put("required", J::Arr(st.required.iter().map(|r| J::s(*r)).collect()));
        let mut samples = Vec::new();
        for c in &st.samples {
            let tr = eval_case(c, EvalOpts { trace: true, want_state: false, progress: false });
            let mut s = J::obj();
            s.put("job", J::s(st.name.clone()));
            s.put("cfg", J::s(c.cfg.iter().map(|(k, v)| format!("{}={}", k, v)).collect::<Vec<_>>().join(" ")));
            s.put("n_ops", J::UInt(c.ops.len() as u64));
            let mut lines: Vec<J> = tr.trace.iter().take(40).map(|l| J::s(l.clone())).collect();
            if tr.trace.len() > 40 {
                lines.push(J::s(format!("… {} more steps", tr.trace.len() - 40)));
            }
            s.put("resolved_history", J::Arr(lines));
            s.put("classes", J::Arr(tr.classes.iter().map(|c| J::s(*c)).collect()));
            samples.push(s);
        }
        o.put("samples", J::Arr(samples));
        jj.push(o);
    }
    root.put("jobs", J::Arr(jj));
    let mut code = 0;
    if let Some(f) = &found {
        let tr = eval_case(&f.case, EvalOpts { trace: true, want_state: false, progress: false });
        let mut text = text_of(&f.case);
        text.push_str(&format!("# failure: property C{:02} site={} at op #{}\n", f.failure.prop, f.failure.site, f.failure.op_index));
        for line in f.failure.msg.lines() {
            text.push_str(&format!("# {}\n", line));
        }
        text.push_str("# resolved history:\n");
        push_trace(&mut text, &tr.trace);
        let fpath = out.join(format!("shard-{}.fail.case", shard));
        let _ = std::fs::write(&fpath, text);
        let mut o = J::obj();
        o.put("prop", J::s(itree_verif::run::prop_id(f.failure.prop)));
        o.put("site", J::s(f.failure.site));
        o.put("msg", J::s(f.failure.msg.clone()));
        o.put("job", J::s(f.job.clone()));
        o.put("case_file", J::s(fpath.to_string_lossy().to_string()));
        o.put("case_hash", J::s(format!("{:016x}", f.case.hash64())));
        o.put("n_ops", J::UInt(f.case.ops.len() as u64));
        o.put("shrink_evaluations", J::UInt(shrink_steps as u64));
        root.put("failure", o);
        code = 1;
    }
    let rpath = out.join(format!("shard-{}.json", shard));
    let _ = std::fs::write(&rpath, root.to_string());
    code
}

/// the resolved history as comment lines: all of it when short, otherwise its head and tail
fn push_trace(text: &mut String, trace: &[String]) {
    let cut = |l: &str| if l.len() > 400 { format!("{}…", l.chars().take(400).collect::<String>()) } else { l.to_string() };
    if trace.len() <= 400 {
        for l in trace {
            text.push_str(&format!("#   {}\n", cut(l)));
        }
    } else {
        for l in &trace[..250] {
            text.push_str(&format!("#   {}\n", cut(l)));
        }
        text.push_str(&format!("#   … {} lines left out (./check <id> --replay <file> prints all of them) …\n", trace.len() - 350));
        for l in &trace[trace.len() - 100..] {
            text.push_str(&format!("#   {}\n", cut(l)));
        }
    }
}

fn replay(path: &str, trace: bool, progress: bool, prop_override: Option<String>) -> i32 {
    let text = match std::fs::read_to_string(path) {
        Ok(t) => t,
        Err(e) => {
            eprintln!("cannot read {}: {}", path, e);
            return 2;
        }
    };
    let mut case = match Case::from_text(&text, &|f| names_of(f)) {
        Ok(c) => c,
        Err(e) => {
            eprintln!("cannot parse {}: {}", path, e);
            return 2;
        }
    };
    if let Some(p) = prop_override {
        case.prop = p;
    }
    let o = eval_case(&case, EvalOpts { trace, want_state: false, progress });
    if trace {
        for l in &o.trace {
            println!("{}", l);
        }
        println!("classes: {:?}", o.classes);
    }
    if let Some(b) = &o.blocked {
        println!("BLOCKED {}", b);
    }
    match &o.failure {
        Some(f) => {
            println!("FAIL property=C{:02} site={} op=#{}: {}", f.prop, f.site, f.op_index, f.msg);
            if prop_num(&case.prop) == Some(f.prop) {
                1
            } else {
                3
            }
        }
        None => {
            println!("PASS {} ({} ops run, {} observations)", case.prop, o.ops_run, o.observations);
            0
        }
    }
}

fn main() {
    install_panic_hook();
    let args: Vec<String> = std::env::args().collect();
    let get = |name: &str| -> Option<String> { args.iter().position(|a| a == name).and_then(|i| args.get(i + 1).cloned()) };
    let cmd = args.get(1).map(|s| s.as_str()).unwrap_or("");
    let tier = match get("--tier").as_deref() {
        Some("thorough") => Tier::Thorough,
        _ => Tier::Quick,
    };
    let code = match cmd {
        "run" => {
            let prop = get("--prop").unwrap_or_default();
            let Some(pn) = prop_num(&prop) else {
                eprintln!("unknown property {}", prop);
                std::process::exit(2);
            };
            let seed: u64 = get("--seed").and_then(|s| s.parse().ok()).unwrap_or(0);
            let shard: usize = get("--shard").and_then(|s| s.parse().ok()).unwrap_or(0);
            let nshards: usize = get("--nshards").and_then(|s| s.parse().ok()).unwrap_or(1);
            let out = PathBuf::from(get("--out").unwrap_or_else(|| ".".into()));
            run_shard(pn, tier, seed, shard, nshards, &out)
        }
        "replay" => {
            let path = args.get(2).cloned().unwrap_or_default();
            replay(&path, args.iter().any(|a| a == "--trace"), args.iter().any(|a| a == "--progress"), get("--prop"))
        }
        "gen-corpus" => {
            // seed corpus for the coverage-guided target: proptest cases of this property's random
            // jobs, encoded with the byte format of decode.rs
            let prop = get("--prop").unwrap_or_default();
            let family = get("--family").unwrap_or_default();
            let nwant: usize = get("--n").and_then(|s| s.parse().ok()).unwrap_or(64);
            let seed: u64 = get("--seed").and_then(|s| s.parse().ok()).unwrap_or(0);
            let out = PathBuf::from(get("--out").unwrap_or_else(|| ".".into()));
            std::fs::create_dir_all(&out).ok();
            let Some(pn) = prop_num(&prop) else { std::process::exit(2) };
            let mut written = 0usize;
            for job in jobs(pn, Tier::Quick) {
                if let JobKind::Random { strategy, .. } = &job.kind {
                    let mut seed_bytes = [0u8; 32];
                    for (i, chunk) in seed_bytes.chunks_mut(8).enumerate() {
                        chunk.copy_from_slice(&splitmix(seed.wrapping_add(i as u64 + 77)).to_le_bytes());
                    }
                    let rng = TestRng::from_seed(RngAlgorithm::ChaCha, &seed_bytes);
                    let mut runner = TestRunner::new_with_rng(Config { failure_persistence: None, ..Config::default() }, rng);
                    let mut tries = 0;
                    let mut mine = 0;
                    while mine < nwant && tries < nwant * 4 {
                        tries += 1;
                        let Ok(tree) = strategy.new_tree(&mut runner) else { continue };
                        let case = tree.current();
                        if case.family != family || case.ops.len() > 150 {
                            continue;
                        }
                        let bytes = itree_verif::decode::encode(&case);
                        let _ = std::fs::write(out.join(format!("seed-{}-{:04}", job.name, mine)), bytes);
                        mine += 1;
                        written += 1;
                    }
                }
            }
            println!("{} corpus files written", written);
            0
        }
        "decode" => {
            let prop = get("--prop").unwrap_or_default();
            let family = get("--family").unwrap_or_default();
            let path = args.get(2).cloned().unwrap_or_default();
            match std::fs::read(&path) {
                Ok(bytes) => {
                    let case = itree_verif::decode::decode(&family, &prop, &bytes);
                    print!("{}", text_of(&case));
                    0
                }
                Err(e) => {
                    eprintln!("cannot read {}: {}", path, e);
                    2
                }
            }
        }
        "shrink" => {
            // in-process ddmin of a failing case file; prints the shrunk case
            let path = args.get(2).cloned().unwrap_or_default();
            let text = std::fs::read_to_string(&path).unwrap_or_default();
            match Case::from_text(&text, &|f| names_of(f)) {
                Ok(mut case) => {
                    if let Some(p) = get("--prop") {
                        case.prop = p;
                    }
                    let pn = prop_num(&case.prop).unwrap_or(0);
                    let mut journal = Journal { file: None };
                    if fails_same(&case, pn, &mut journal).is_none() {
                        println!("# does not fail");
                        3
                    } else {
                        let mut budget = 4000u32;
                        let (c2, f2) = ddmin_ops(case, pn, &mut journal, &mut budget);
                        let tr = eval_case(&c2, EvalOpts { trace: true, want_state: false, progress: false });
                        let mut t = text_of(&c2);
                        t.push_str(&format!("# failure: property C{:02} site={} at op #{}\n", f2.prop, f2.site, f2.op_index));
                        for line in f2.msg.lines() {
                            t.push_str(&format!("# {}\n", line));
                        }
                        t.push_str("# resolved history:\n");
                        push_trace(&mut t, &tr.trace);
                        print!("{}", t);
                        println!("# site={}", f2.site);
                        1
                    }
                }
                Err(e) => {
                    eprintln!("cannot parse: {}", e);
                    2
                }
            }
        }
        "list" => {
            let prop = get("--prop").unwrap_or_default();
            if let Some(pn) = prop_num(&prop) {
                for j in jobs(pn, tier) {
                    let k = match &j.kind {
                        JobKind::Random { cases, .. } => format!("random {} cases", cases),
                        JobKind::Enumerate { spec } => format!("enumerate alphabet={} battery={}", spec.alphabet.len(), spec.battery.len()),
                        JobKind::Fixed { cases, .. } => format!("fixed {} cases", cases.len()),
                        JobKind::Sequences { alphabet, len, .. } => format!("all {} sequences of {} operations over an alphabet of {}", (alphabet.len() as u64).pow(*len as u32), len, alphabet.len()),
                    };
                    println!("{} {} :: {}", prop, j.name, k);
                }
            }
            0
        }
        _ => {
            eprintln!("usage: worker run|replay|list …");
            2
        }
    };
    std::process::exit(code);
}
