//! Model-directed interpreter for the bitmask segment tree with expiring values.
//!
//! Properties with oracles in here: C03 C10 C12 C14 C15 C16 C18.

use crate::case::{Case, RawOp};
use crate::instr::SegVal;
use crate::run::{lib_call, CallErr, Outcome, RunCfg};
use i_tree::seg::exp::{SegExpCollection, SegRange};
use i_tree::seg::tree::SegExpTree;

pub const SEG_OPS: &[&str] = &["ins", "query", "adv", "clear", "queryall", "pins", "pquery", "qval"];
pub const S_INS: u8 = 0;
pub const S_QUERY: u8 = 1;
pub const S_ADV: u8 = 2;
pub const S_CLEAR: u8 = 3;
pub const S_QUERYALL: u8 = 4;
pub const S_PINS: u8 = 5;
pub const S_PQUERY: u8 = 6;
/// `qval j style`: query exactly the range under which the j-th value inserted since the last clear
/// was stored (a sweep line asks again for the ranges it inserted)
pub const S_QVAL: u8 = 7;

pub trait Coord: Copy + 'static
where
    i64: From<Self>,
{
    const NAME: &'static str;
    fn from_i64(v: i64) -> Self;
    fn min_i64() -> i64;
    fn max_i64() -> i64;
}

macro_rules! coord {
    ($t:ty, $n:expr) => {
        impl Coord for $t {
            const NAME: &'static str = $n;
            fn from_i64(v: i64) -> Self {
                v as $t
            }
            fn min_i64() -> i64 {
                <$t>::MIN as i64
            }
            fn max_i64() -> i64 {
                <$t>::MAX as i64
            }
        }
    };
}
coord!(i8, "i8");
coord!(i16, "i16");
coord!(i32, "i32");
coord!(i64, "i64");
coord!(u8, "u8");
coord!(u16, "u16");
coord!(u32, "u32");

/// Reference bucket layout: 32 buckets of one common power-of-two width, the smallest that covers
/// the domain.
#[derive(Clone, Copy, Debug)]
pub struct ModelLayout {
    pub lo: i64,
    pub hi: i64,
    pub shift: u32,
}

impl ModelLayout {
    pub fn new(lo: i64, hi: i64) -> Self {
        let len = (hi as i128 - lo as i128 + 1) as u128;
        let mut shift = 0u32;
        while (32u128 << shift) < len {
            shift += 1;
        }
        ModelLayout { lo, hi, shift }
    }
    #[inline]
    pub fn bucket(&self, x: i64) -> u32 {
        (((x as i128) - (self.lo as i128)) >> self.shift) as u32
    }
    pub fn width(&self) -> i64 {
        1i64 << self.shift
    }
    pub fn nbuckets(&self) -> u32 {
        self.bucket(self.hi) + 1
    }
    pub fn first_of(&self, b: u32) -> i64 {
        let v = self.lo as i128 + ((b as i128) << self.shift);
        v.min(self.hi as i128) as i64
    }
    pub fn last_of(&self, b: u32) -> i64 {
        let v = self.lo as i128 + (((b as i128) + 1) << self.shift) - 1;
        v.min(self.hi as i128) as i64
    }
}

/// heap model: leaf of bucket i is node 31+i, parent of node n is (n-1)/2
pub fn leaves_under(node: usize) -> (u32, u32) {
    let (mut lo, mut hi) = (node, node);
    while lo < 31 {
        lo = 2 * lo + 1;
        hi = 2 * hi + 2;
    }
    ((lo - 31) as u32, (hi - 31) as u32)
}

pub fn visit_set(b0: u32, b1: u32) -> u64 {
    let mut m = 0u64;
    for b in b0..=b1 {
        let mut n = 31 + b as usize;
        loop {
            m |= 1u64 << n;
            if n == 0 {
                break;
            }
            n = (n - 1) / 2;
        }
    }
    m
}

#[derive(Clone, Copy, Debug)]
struct MVal {
    id: u32,
    lo: i64,
    hi: i64,
    exp: i32,
}

struct SegRun<'a, R: Coord>
where
    i64: From<R>,
{
    rc: &'a RunCfg,
    out: Outcome,
    tree: SegExpTree<R, i32, SegVal>,
    twin: Option<SegExpTree<R, i32, SegVal>>,
    lay: ModelLayout,
    model: Vec<MVal>,
    clock: i32,
    clock0: i32,
    next_id: u32,
    dropped_iter_before: bool,
    max_values: i64,
    inserts_after_clear: u32,
    /// whether the inserts that follow the last clear are each followed by a point-query sweep (the
    /// clear operation's second argument: a query may repair what the clear left behind, so only some
    /// cases look that early)
    sweep_after_clear: bool,
    tmax: i64,
}

macro_rules! trace {
    ($self:expr, $($arg:tt)*) => {
        if $self.rc.trace {
            $self.out.trace.push(format!($($arg)*));
        }
    };
}

enum Step {
    Continue,
    Stop,
}

pub fn run_seg(case: &Case, rc: &RunCfg) -> Outcome {
    match case.get_str("rtype", "i32") {
        "i64" => run_seg_t::<i64>(case, rc),
        "i16" => run_seg_t::<i16>(case, rc),
        "u8" => run_seg_t::<u8>(case, rc),
        "i8" => run_seg_t::<i8>(case, rc),
        "u16" => run_seg_t::<u16>(case, rc),
        "u32" => run_seg_t::<u32>(case, rc),
        _ => run_seg_t::<i32>(case, rc),
    }
}

fn domain_of<R: Coord>(case: &Case) -> Option<(i64, i64)>
where
    i64: From<R>,
{
    let lo = case.get_i64("lo", 0);
    let len = case.get_i64("len", 32);
    if len < 1 {
        return None;
    }
    let hi = lo.checked_add(len - 1)?;
    if lo < R::min_i64() || hi > R::max_i64() {
        return None;
    }
    Some((lo, hi))
}

fn run_seg_t<R: Coord>(case: &Case, rc: &RunCfg) -> Outcome
where
    i64: From<R>,
{
    crate::instr::reset();
    let mut out = Outcome::default();
    let Some((lo, hi)) = domain_of::<R>(case) else {
        out.blocked = Some("domain outside the coordinate type".into());
        return out;
    };
    if case.get_i64("domain_battery", 0) != 0 {
        rc.progress_line(0, "domain_battery", rc.obs(14) || rc.obs(10));
        return run_domain::<R>(lo, hi, rc);
    }
    let clock0 = case.get_i64("clock0", 0) as i32;
    let (r, _, _) = lib_call(None, crate::run::INTERNAL_BUDGET, false, || SegExpTree::<R, i32, SegVal>::new(SegRange { min: R::from_i64(lo), max: R::from_i64(hi) }));
    let tree = match r {
        Ok(Some(t)) => t,
        Ok(None) => {
            let len = hi as i128 - lo as i128 + 1;
            if len > 16 {
                let pn = rc.observe.trailing_zeros();
                out.fail(pn, "domain-refused", 0, format!("SegExpTree::new([{}, {}]) refused a domain of {} points (> 16): no history on it can be run", lo, hi, len));
            } else {
                out.blocked = Some(format!("domain [{}, {}] has <= 16 points", lo, hi));
            }
            return out;
        }
        Err(e) => {
            let msg = format!("SegExpTree::new([{}, {}]) failed: {:?}", lo, hi, e);
            if rc.obs(10) {
                out.fail(10, "panic", 0, msg);
            } else {
                out.fail(rc.observe.trailing_zeros(), "history-aborted", 0, msg);
            }
            return out;
        }
    };
    let mut r = SegRun::<R> {
        rc,
        out,
        tree,
        twin: None,
        lay: ModelLayout::new(lo, hi),
        model: Vec::new(),
        clock: clock0,
        clock0,
        next_id: 0,
        dropped_iter_before: false,
        max_values: case.get_i64("max_values", i64::MAX),
        inserts_after_clear: 0,
        sweep_after_clear: false,
        tmax: case.get_i64("Tmax", i64::MAX),
    };
    if r.lay.shift > 0 {
        r.out.class("domain_wider_than_32");
    }
    if lo < 0 {
        r.out.class("domain_negative_lo");
    }
    let len = (hi as i128 - lo as i128 + 1) as u128;
    if !len.is_power_of_two() {
        r.out.class("domain_non_pow2");
    }
    let mut last_look = 0usize;
    for (i, op) in case.ops.iter().enumerate() {
        if r.out.failure.is_some() || r.out.blocked.is_some() {
            break;
        }
        if [S_QUERY, S_PQUERY, S_QUERYALL, S_QVAL].contains(&op.kind) {
            if i >= last_look + 100 {
                r.out.class("sparse_observations");
            }
            last_look = i;
        }
        match r.step(i, op) {
            Step::Continue => {}
            Step::Stop => break,
        }
        r.out.ops_run += 1;
    }
    if r.out.failure.is_none() && r.out.blocked.is_none() && rc.want_state {
        let mut key = Vec::new();
        key.extend_from_slice(&(r.clock - r.clock0).to_le_bytes());
        let mut copies: Vec<(usize, u32, i32)> = r.tree.verif_copies().iter().map(|(p, _, v)| (*p, v.id, v.exp)).collect();
        copies.sort();
        // ids depend on the path: canonicalise by (place, range, exp)
        for (p, id, exp) in copies {
            let mv = r.model.iter().find(|m| m.id == id);
            key.extend_from_slice(&(p as u32).to_le_bytes());
            if let Some(m) = mv {
                key.extend_from_slice(&m.lo.to_le_bytes());
                key.extend_from_slice(&m.hi.to_le_bytes());
            }
            key.extend_from_slice(&exp.to_le_bytes());
        }
        r.out.state_key = Some(key);
    }
    r.out
}

impl<'a, R: Coord> SegRun<'a, R>
where
    i64: From<R>,
{
    fn coord(&self, bsel: i64, osel: i64) -> i64 {
        let nb = self.lay.nbuckets() as i64;
        let b = bsel.rem_euclid(nb) as u32;
        let first = self.lay.first_of(b);
        let last = self.lay.last_of(b);
        let w = (last as i128 - first as i128 + 1) as i64;
        let x = match osel.rem_euclid(4) {
            0 => first,
            1 => last,
            2 => (first as i128 + 1).min(last as i128) as i64,
            _ => first + (osel / 4).rem_euclid(w.max(1)),
        };
        x.clamp(self.lay.lo, self.lay.hi)
    }

    fn range_of(&self, op: &RawOp) -> (i64, i64) {
        let a = self.coord(op.args[0], op.args[1]);
        let b = self.coord(op.args[2], op.args[3]);
        (a.min(b), a.max(b))
    }

    fn on_call_err(&mut self, i: usize, e: CallErr, observed_by: &[u32], what: &str) -> Step {
        match e {
            CallErr::Injected => unreachable!(),
            CallErr::Budget => {
                let msg = format!("SegExpTree: callback budget exceeded in {}", what);
                let pn = if self.rc.obs(10) { 10 } else { self.rc.observe.trailing_zeros() };
                self.out.fail(pn, "callback-budget", i, msg);
            }
            CallErr::Panic(m) => {
                let msg = format!("SegExpTree: panic in {}: {}", what, m);
                if self.rc.obs(10) {
                    self.out.fail(10, "panic", i, msg);
                } else if let Some(pn) = observed_by.iter().find(|n| self.rc.obs(**n)) {
                    self.out.fail(*pn, "panic-in-observed-op", i, msg);
                } else {
                    // the in-contract history cannot be completed: a counterexample to any property
                    // that quantifies over all histories (and, of course, to C10)
                    let pn = self.rc.observe.trailing_zeros();
                    self.out.fail(pn, "history-aborted", i, format!("{} (the in-contract history cannot be completed, so what the property promises for it is not delivered)", msg));
                }
            }
        }
        Step::Stop
    }

    fn countdown_for(&self, i: usize) -> Option<u64> {
        match self.rc.inject {
            Some((oi, j)) if oi == i => Some(j),
            _ => {
                if self.rc.inject_all {
                    Some(0)
                } else {
                    None
                }
            }
        }
    }

    fn step(&mut self, i: usize, op: &RawOp) -> Step {
        if self.rc.progress {
            let observed = match op.kind {
                S_INS | S_PINS => self.rc.obs(15) || self.rc.obs(3),
                S_QUERY | S_PQUERY | S_QUERYALL | S_QVAL => self.rc.obs(3) || self.rc.obs(15) || self.rc.obs(16),
                S_CLEAR => self.rc.obs(12),
                _ => false,
            } || self.rc.obs(10);
            self.rc.progress_line(i, SEG_OPS.get(op.kind as usize).copied().unwrap_or("?"), observed);
        }
        match op.kind {
            S_INS | S_PINS => {
                let (lo, hi) = if op.kind == S_INS {
                    self.range_of(op)
                } else {
                    let x = self.coord(op.args[0], op.args[1]);
                    (x, x)
                };
                let d = if op.kind == S_INS { op.args[4] } else { op.args[2] };
                // d == 9 stands for "never expires": the expiration type's maximum
                let exp = if d == 9 { i32::MAX } else { self.clock.saturating_add((d.rem_euclid(5) - 1) as i32) };
                let step = self.insert(i, lo, hi, exp);
                // C12: after each of the first inserts that follow a clear, one point query per bucket
                // (every place is a leftover candidate; a point query reaches a stale copy below the
                // value's top place, which a wider query would attribute to the top place and skip)
                if matches!(step, Step::Continue) && self.rc.obs(12) && self.twin.is_some() && self.sweep_after_clear && self.inserts_after_clear < 3 && self.rc.inject.is_none() && !self.rc.inject_all {
                    self.inserts_after_clear += 1;
                    let nb = self.lay.nbuckets();
                    for b in 0..nb {
                        let x = self.lay.first_of(b);
                        if let Step::Stop = self.query(i, x, x, 0, 0, false) {
                            return Step::Stop;
                        }
                        self.out.callbacks.pop();
                    }
                    self.out.class("post_clear_point_sweep");
                }
                step
            }
            S_QVAL => {
                if self.model.is_empty() {
                    self.out.degraded += 1;
                    self.out.callbacks.push(0);
                    return Step::Continue;
                }
                let m = self.model[op.args[0].rem_euclid(self.model.len() as i64) as usize];
                self.out.class("query_range_of_stored_value");
                self.query(i, m.lo, m.hi, op.args[1].rem_euclid(6) as usize, (op.args[1].rem_euclid(36) / 6) as usize, false)
            }
            S_QUERY | S_PQUERY | S_QUERYALL => {
                // args[4] = 6 * style + k: how the query iterator is consumed (see `drain_query`)
                let (lo, hi, consume, style) = match op.kind {
                    S_QUERY => {
                        let (a, b) = self.range_of(op);
                        (a, b, op.args[4].rem_euclid(6) as usize, (op.args[4].rem_euclid(36) / 6) as usize)
                    }
                    S_PQUERY => {
                        let x = self.coord(op.args[0], op.args[1]);
                        (x, x, 0, 0)
                    }
                    _ => (self.lay.lo, self.lay.hi, 0, 0),
                };
                self.query(i, lo, hi, consume, style, op.kind == S_QUERYALL)
            }
            S_ADV => {
                let d = op.args[0].rem_euclid(1 << 16) as i32;
                let t = self.clock;
                if (t as i64 - self.clock0 as i64) + d as i64 > self.tmax {
                    self.out.degraded += 1;
                    self.out.callbacks.push(0);
                    return Step::Continue;
                }
                self.clock = t.saturating_add(d);
                self.out.callbacks.push(0);
                trace!(self, "#{} advance clock {} -> {}", i, t, self.clock);
                Step::Continue
            }
            S_CLEAR => {
                self.out.callbacks.push(0);
                let tree = &mut self.tree;
                let (r, _, _) = lib_call(None, crate::run::INTERNAL_BUDGET, false, || tree.clear());
                if let Err(e) = r {
                    return self.on_call_err(i, e, &[12], "clear");
                }
                if self.model.len() >= 3 {
                    self.out.class("clear_ge_3_stored");
                }
                if self.model.is_empty() {
                    self.out.class("clear_empty");
                }
                if self.model.iter().any(|m| m.exp < self.clock) {
                    self.out.class("clear_with_expired_stored");
                }
                let newclock = self.clock0.saturating_add(op.args[0].rem_euclid(1 << 16) as i32);
                if newclock < self.clock {
                    self.out.class("clock_restarted_earlier");
                }
                trace!(self, "#{} clear(); clock {} -> {}", i, self.clock, newclock);
                self.clock = newclock;
                self.inserts_after_clear = 0;
                self.sweep_after_clear = op.args[1].rem_euclid(2) == 1;
                self.model.clear();
                self.out.class("after_clear");
                if self.rc.obs(12) {
                    let lo = self.lay.lo;
                    let hi = self.lay.hi;
                    self.twin = SegExpTree::<R, i32, SegVal>::new(SegRange { min: R::from_i64(lo), max: R::from_i64(hi) });
                    self.out.class("twin_started");
                    // right after clear: a whole-domain query at the lowest time must be empty
                }
                // (copies physically left behind by clear() are not reported: C12 speaks of what can be
                // observed, and a stale copy that matters shows up in the twin comparison below)
                if !self.tree.verif_copies().is_empty() {
                    self.out.class("copies_left_by_clear");
                }
                Step::Continue
            }
            _ => {
                self.out.degraded += 1;
                self.out.callbacks.push(0);
                Step::Continue
            }
        }
    }

    fn insert(&mut self, i: usize, lo: i64, hi: i64, exp: i32) -> Step {
        if self.max_values != i64::MAX {
            let mut ids: Vec<u32> = self.tree.verif_copies().iter().map(|(_, _, v)| v.id).collect();
            ids.sort();
            ids.dedup();
            if ids.len() as i64 >= self.max_values {
                self.out.degraded += 1;
                self.out.callbacks.push(0);
                return Step::Continue;
            }
        }
        self.next_id += 1;
        let id = self.next_id;
        let val = SegVal { id, exp };
        trace!(self, "#{} insert_by_range([{}, {}] = buckets {}..{}) value id={} exp={} at clock {}", i, lo, hi, self.lay.bucket(lo), self.lay.bucket(hi), id, exp, self.clock);
        if exp == self.clock {
            self.out.class("ins_exp_eq_clock");
        }
        if exp < self.clock {
            self.out.class("ins_already_expired");
        }
        if lo == hi {
            self.out.class("ins_single_point");
        }
        let range = SegRange { min: R::from_i64(lo), max: R::from_i64(hi) };
        let countdown = self.countdown_for(i);
        let tree = &mut self.tree;
        let (r, calls, _) = lib_call(countdown, 1 << 20, false, || tree.insert_by_range(range, val));
        self.out.callbacks.push(calls);
        match r {
            Ok(()) => {}
            Err(CallErr::Injected) => {
                // an insert that calls user code must still be all-in or all-out
                self.out.injections += 1;
                if self.rc.inject_all {
                    self.out.class("injection_delivered_compound");
                }
                let places: Vec<usize> = self.tree.verif_copies().iter().filter(|(_, _, v)| v.id == id).map(|(p, _, _)| *p).collect();
                if !places.is_empty() {
                    let b0 = self.lay.bucket(lo);
                    let b1 = self.lay.bucket(hi);
                    let mut cover = [0u8; 32];
                    for p in &places {
                        let (l0, l1) = leaves_under(*p);
                        for b in l0..=l1.min(31) {
                            cover[b as usize] += 1;
                        }
                    }
                    let complete = (0..32u32).all(|b| cover[b as usize] == (b >= b0 && b <= b1) as u8);
                    if !complete {
                        self.out.fail(18, "torn-insert-after-panic", i, format!("SegExpTree: a panic injected into insert_by_range([{}, {}]) left the value stored at places {:?} only, which do not cover its buckets {}..{}", lo, hi, places, b0, b1));
                        return Step::Stop;
                    }
                    self.model.push(MVal { id, lo, hi, exp });
                }
                return self.check_whole_after_injection(i);
            }
            Err(e) => return self.on_call_err(i, e, &[15, 3], "insert_by_range"),
        }
        self.model.push(MVal { id, lo, hi, exp });
        if let Some(tw) = self.twin.as_mut() {
            tw.insert_by_range(range, val);
        }
        // C15: the stored-at places tile the bucket range, at most 8 copies, one common mask
        if self.rc.obs(15) {
            self.out.observations += 1;
            let b0 = self.lay.bucket(lo);
            let b1 = self.lay.bucket(hi);
            let copies: Vec<(usize, u64)> = self.tree.verif_copies().iter().filter(|(_, _, v)| v.id == id).map(|(p, m, _)| (*p, *m)).collect();
            if copies.len() > 8 {
                self.out.fail(15, "more-than-8-copies", i, format!("SegExpTree: inserting buckets {}..{} wrote {} copies", b0, b1, copies.len()));
                return Step::Stop;
            }
            if copies.len() >= 5 {
                self.out.class("ins_ge_5_copies");
            }
            let mut cover = [0u8; 32];
            let mut all_mask = 0u64;
            for (p, _) in &copies {
                all_mask |= 1u64 << p;
                let (l0, l1) = leaves_under(*p);
                for b in l0..=l1.min(31) {
                    cover[b as usize] += 1;
                }
            }
            for b in 0..32u32 {
                let want = (b >= b0 && b <= b1) as u8;
                if cover[b as usize] != want {
                    self.out.fail(15, "places-do-not-tile", i, format!("SegExpTree: value stored for buckets {}..{} at places {:?}: bucket {} is covered {} times (expected {})", b0, b1, copies.iter().map(|c| c.0).collect::<Vec<_>>(), b, cover[b as usize], want));
                    return Step::Stop;
                }
            }
            let _ = all_mask;
            // every other unexpired value must still be stored at places that tile its range: an
            // insert writes copies of the new value and has no business removing live ones
            let t = self.clock;
            // (quadratic in the number of stored values: on long hot-spot histories every 16th insert)
            let all = if self.model.len() <= 96 || id % 16 == 0 { self.tree.verif_copies() } else { Vec::new() };
            for m in self.model.iter().filter(|m| !all.is_empty() && m.exp >= t && m.id != id) {
                let (mb0, mb1) = (self.lay.bucket(m.lo), self.lay.bucket(m.hi));
                let mut cov = [0u8; 32];
                for (p, _, v) in all.iter().filter(|(_, _, v)| v.id == m.id) {
                    let _ = v;
                    let (l0, l1) = leaves_under(*p);
                    for b in l0..=l1.min(31) {
                        cov[b as usize] += 1;
                    }
                }
                if let Some(b) = (0..32u32).find(|b| cov[*b as usize] != (*b >= mb0 && *b <= mb1) as u8) {
                    self.out.fail(15, "live-value-no-longer-tiled", i, format!("SegExpTree: after insert of value {}, the unexpired value {} (buckets {}..{}, expiration {} >= clock {}) covers bucket {} {} times", id, m.id, mb0, mb1, m.exp, t, b, cov[b as usize]));
                    return Step::Stop;
                }
            }
        }
        Step::Continue
    }

    fn query(&mut self, i: usize, lo: i64, hi: i64, consume: usize, style: usize, whole: bool) -> Step {
        let t = self.clock;
        let b0 = self.lay.bucket(lo);
        let b1 = self.lay.bucket(hi);
        let mut expected: Vec<u32> = self
            .model
            .iter()
            .filter(|m| m.exp >= t && self.lay.bucket(m.lo) <= b1 && self.lay.bucket(m.hi) >= b0)
            .map(|m| m.id)
            .collect();
        expected.sort();
        // classes
        let pre_copies = self.tree.verif_copies();
        let expired_before = pre_copies.iter().filter(|(_, _, v)| v.exp < t).count();
        {
            let mut per_place = [0u32; 64];
            for (p, _, _) in &pre_copies {
                if *p < 64 {
                    per_place[*p] += 1;
                }
            }
            if per_place.iter().any(|c| *c >= 17) {
                self.out.class("chunk_ge_17_entries");
            }
            if per_place.iter().any(|c| *c >= 129) {
                self.out.class("chunk_ge_129_entries");
            }
            {
                // a list of >= 128 copies every one of which is expired at this query
                let mut expired_per_place = [0u32; 64];
                for (p, _, v) in &pre_copies {
                    if *p < 64 && v.exp < t {
                        expired_per_place[*p] += 1;
                    }
                }
                if (0..64).any(|p| per_place[p] >= 128 && expired_per_place[p] == per_place[p]) {
                    self.out.class("query_all_of_ge_128_list_expired");
                }
            }
            if per_place.iter().any(|c| *c >= 65) {
                self.out.class("chunk_ge_65_entries");
            }
        }
        if expired_before > 0 {
            self.out.class("query_with_expired_copies");
        }
        if expired_before >= 65 {
            self.out.class("query_ge_65_expired_copies");
        }
        if self.model.iter().any(|m| m.exp == t) {
            self.out.class("query_t_eq_exp");
        }
        if lo == hi {
            self.out.class("query_single_point");
        }
        if lo == self.lay.first_of(b0) || hi == self.lay.last_of(b1) {
            self.out.class("query_at_bucket_boundary");
        }
        if lo == self.lay.lo || hi == self.lay.hi {
            self.out.class("query_at_domain_edge");
        }
        if self.dropped_iter_before {
            self.out.class("query_after_dropped_iterator");
        }
        let multi_place = expected.iter().any(|id| pre_copies.iter().filter(|(_, _, v)| v.id == *id).count() >= 2);
        if expected.len() >= 2 && multi_place {
            self.out.class("query_ge2_answers_multi_place");
            if self.model.iter().any(|m| m.exp < t) {
                self.out.class("c03_nontrivial");
            }
        }
        let range = SegRange { min: R::from_i64(lo), max: R::from_i64(hi) };
        let countdown = self.countdown_for(i);
        let budget = 64 + 4 * pre_copies.len() as u64;
        let tree = &mut self.tree;
        let (r, calls, _) = lib_call(countdown, budget, false, || {
            drain_query(tree.iter_by_range(range, t), style, consume)
        });
        self.out.callbacks.push(calls);
        let (got, exhausted, hidden) = match r {
            Ok(x) => x,
            Err(CallErr::Injected) => {
                self.out.injections += 1;
                if self.rc.inject_all {
                    self.out.class("injection_delivered_compound");
                }
                // C18: after the panic the tree must still answer exactly like the reference
                if expired_before > 0 {
                    self.out.class("inject_with_expired_copies");
                }
                return self.check_whole_after_injection(i);
            }
            Err(e) => return self.on_call_err(i, e, &[3, 14, 15], "iter_by_range"),
        };
        if !exhausted {
            self.dropped_iter_before = true;
            self.out.class("iterator_dropped_midway");
        }
        // all qualifying values were collected one by one (nothing skipped or merely counted)
        let full_ids = exhausted && matches!(style, 0 | 1);
        if style != 0 && consume > 0 {
            self.out.class("query_next_then_internal_iteration");
        }
        let mut ids: Vec<u32> = got.iter().map(|v| v.id).collect();
        trace!(self, "#{} iter_by_range([{}, {}] = buckets {}..{}, t={}){} -> ids {:?} (model {:?})", i, lo, hi, b0, b1, t, if consume == 0 && style == 0 { String::new() } else { format!(" {} {}", DRAIN_STYLES[style], consume) }, ids, expected);
        ids.sort();
        if self.rc.obs(3) {
            self.out.observations += 1;
            if let Some(w) = ids.windows(2).find(|w| w[0] == w[1]) {
                self.out.fail(3, "yielded-twice", i, format!("SegExpTree: query [{}, {}] at t={} yielded value id={} twice", lo, hi, t, w[0]));
                return Step::Stop;
            }
            for v in &got {
                if v.exp < t {
                    self.out.fail(3, "yielded-expired", i, format!("SegExpTree: query [{}, {}] at t={} yielded value id={} whose expiration {} is below t", lo, hi, t, v.id, v.exp));
                    return Step::Stop;
                }
                if !expected.contains(&v.id) {
                    self.out.fail(3, "yielded-non-overlapping", i, format!("SegExpTree: query [{}, {}] (buckets {}..{}) at t={} yielded value id={} which shares no bucket with the query", lo, hi, b0, b1, t, v.id));
                    return Step::Stop;
                }
            }
            if full_ids {
                if ids != expected {
                    let missing: Vec<u32> = expected.iter().copied().filter(|e| !ids.contains(e)).collect();
                    self.out.fail(3, "missed-value", i, format!("SegExpTree: fully consumed query [{}, {}] (buckets {}..{}) at t={} ({} {}) yielded ids {:?}; missing {:?}", lo, hi, b0, b1, t, DRAIN_STYLES[style], consume, ids, missing));
                    return Step::Stop;
                }
            } else {
                // values that must have been collected / merely counted under this way of consuming
                let e = expected.len();
                let k = consume.min(e);
                let (want_ids, want_hidden) = match style {
                    0 => (k, 0),
                    2 => (k, e - k),
                    3 | 5 => (e - k, 0),
                    4 => (k + (e > k) as usize, 0),
                    _ => (e, 0),
                };
                if ids.len() != want_ids || hidden != want_hidden {
                    self.out.fail(3, "partial-count", i, format!("SegExpTree: consuming query [{}, {}] at t={} as `{} {}` produced {} values (+{} counted) although {} values qualify (expected {} +{})", lo, hi, t, DRAIN_STYLES[style], consume, ids.len(), hidden, e, want_ids, want_hidden));
                    return Step::Stop;
                }
            }
        }
        // C15 through the API: the stored-at places of every unexpired value must meet the visited
        // places iff the bucket ranges overlap (`expected` is computed from bucket overlap), whatever
        // the width of a bucket
        if self.rc.obs(15) && full_ids {
            // single insert: the masks meet iff the bucket ranges overlap
            self.out.observations += 1;
            if ids != expected {
                self.out.fail(15, "masks-disagree-with-overlap", i, format!("SegExpTree: {} values stored; query over buckets {}..{} yielded ids {:?}, bucket overlap says {:?}", self.model.len(), b0, b1, ids, expected));
                return Step::Stop;
            }
        }
        // twin (C12)
        if let Some(tw) = self.twin.as_mut() {
            let (got2, _, hidden2) = drain_query(tw.iter_by_range(range, t), style, consume);
            let mut ids2: Vec<u32> = got2.iter().map(|v| v.id).collect();
            if self.rc.obs(12) {
                self.out.observations += 1;
                self.out.twin_observation();
                // order is unspecified: compare as multisets when fully consumed, sizes otherwise
                ids2.sort();
                let same = if full_ids { ids2 == ids } else { ids2.len() == ids.len() && hidden2 == hidden };
                if !same {
                    self.out.fail(12, "twin-query", i, format!("SegExpTree: after clear, query [{}, {}] at t={} yields ids {:?} but a fresh instance driven by the same suffix yields {:?}", lo, hi, t, ids, ids2));
                    return Step::Stop;
                }
            }
        }
        // C16: expired copies are physically dropped from every scanned list
        if self.rc.obs(16) && exhausted {
            self.out.observations += 1;
            let post = self.tree.verif_copies();
            let visit = visit_set(b0, b1);
            if expired_before > 0 {
                self.out.class("c16_nontrivial");
            }
            for (p, _, v) in &post {
                if v.exp < t && (visit >> p) & 1 == 1 {
                    self.out.fail(16, "expired-copy-kept", i, format!("SegExpTree: after a fully consumed query over buckets {}..{} at t={} the scanned place {} still stores a copy of value id={} with expiration {}", b0, b1, t, p, v.id, v.exp));
                    return Step::Stop;
                }
            }
            if whole {
                self.out.class("whole_domain_query");
                let unexpired = self.model.iter().filter(|m| m.exp >= t).count();
                if let Some((p, _, v)) = post.iter().find(|(_, _, v)| v.exp < t) {
                    self.out.fail(16, "expired-copy-kept-whole", i, format!("SegExpTree: after a fully consumed whole-domain query at t={} place {} still stores a copy of value id={} with expiration {}", t, p, v.id, v.exp));
                    return Step::Stop;
                }
                if post.len() > 8 * unexpired {
                    self.out.fail(16, "too-many-copies", i, format!("SegExpTree: {} copies stored after a whole-domain query with {} unexpired values", post.len(), unexpired));
                    return Step::Stop;
                }
            }
        }
        Step::Continue
    }

    /// after an injected panic: a whole-domain query must match the reference exactly
    fn check_whole_after_injection(&mut self, i: usize) -> Step {
        let t = self.clock;
        let range = SegRange { min: R::from_i64(self.lay.lo), max: R::from_i64(self.lay.hi) };
        let tree = &mut self.tree;
        let (r, _, _) = lib_call(None, crate::run::INTERNAL_BUDGET, false, || {
            let mut v: Vec<u32> = tree.iter_by_range(range, t).map(|v| v.id).collect();
            v.sort();
            v
        });
        let ids = match r {
            Ok(v) => v,
            Err(e) => {
                self.out.fail(18, "panic-after-panic", i, format!("SegExpTree: query after an injected panic failed: {:?}", e));
                return Step::Stop;
            }
        };
        let mut expected: Vec<u32> = self.model.iter().filter(|m| m.exp >= t).map(|m| m.id).collect();
        expected.sort();
        if ids != expected {
            self.out.fail(18, "torn-after-panic", i, format!("SegExpTree: after a panic injected into the expiration accessor during a query at t={}, a whole-domain query yields {:?} but the reference holds {:?}", t, ids, expected));
            return Step::Stop;
        }
        // copies well-formed: every stored copy belongs to a model value and sits at a place of its mask
        for (p, m, v) in self.tree.verif_copies() {
            if (m >> p) & 1 == 0 || !self.model.iter().any(|x| x.id == v.id) {
                self.out.fail(18, "copy-malformed-after-panic", i, format!("SegExpTree: after an injected panic place {} holds a copy of id={} with mask {:#x}", p, v.id, m));
                return Step::Stop;
            }
        }
        Step::Continue
    }
}

/// C14 battery for one domain: construction result and black-box bucket identification.
fn run_domain<R: Coord>(lo: i64, hi: i64, rc: &RunCfg) -> Outcome
where
    i64: From<R>,
{
    let mut out = Outcome::default();
    let len = hi as i128 - lo as i128 + 1;
    let (r, _, _) = lib_call(None, crate::run::INTERNAL_BUDGET, false, || SegExpTree::<R, i32, SegVal>::new(SegRange { min: R::from_i64(lo), max: R::from_i64(hi) }));
    let built = match r {
        Ok(t) => t,
        Err(e) => {
            let msg = format!("SegExpTree::<{}>::new([{}, {}]) ({} points) failed: {:?}", R::NAME, lo, hi, len, e);
            out.fail(if rc.obs(14) { 14 } else { 10 }, "new-panicked", 0, msg);
            return out;
        }
    };
    out.observations += 1;
    if rc.trace {
        out.trace.push(format!("SegExpTree::<{}>::new([{}, {}]) ({} points) -> {}", R::NAME, lo, hi, len, if built.is_some() { "Some" } else { "None" }));
    }
    if len <= 16 {
        out.class("domain_le_16");
        if built.is_some() && rc.obs(14) {
            out.fail(14, "degenerate-domain-built", 0, format!("SegExpTree::<{}>::new([{}, {}]) built a tree over {} points (<= 16)", R::NAME, lo, hi, len));
        }
        return out;
    }
    let Some(mut tree) = built else {
        if rc.obs(14) {
            out.fail(14, "domain-refused", 0, format!("SegExpTree::<{}>::new([{}, {}]) refused a domain of {} points (> 16)", R::NAME, lo, hi, len));
        }
        return out;
    };
    out.class("domain_built");
    if !(len as u128).is_power_of_two() {
        out.class("domain_non_pow2");
    }
    if lo < 0 {
        out.class("domain_negative_lo");
    }
    if len > (1i128 << 31) {
        out.class("domain_wider_than_2_31");
    }
    let lay = ModelLayout::new(lo, hi);
    let nb = lay.nbuckets();
    if rc.obs(14) {
        out.observations += 1;
        let pc = tree.verif_place_count();
        if pc < nb as usize + 31 {
            out.fail(14, "place-count", 0, format!("SegExpTree::<{}> over [{}, {}]: only {} places are backed by storage but the last reachable leaf is place {}", R::NAME, lo, hi, pc, nb + 30));
            return out;
        }
    }
    // test points: domain ends and both sides of every bucket edge
    let mut pts: Vec<i64> = vec![lo, hi];
    for b in 0..nb {
        pts.push(lay.first_of(b));
        pts.push(lay.last_of(b));
    }
    pts.sort();
    pts.dedup();
    for (j, x) in pts.iter().enumerate() {
        let range = SegRange { min: R::from_i64(*x), max: R::from_i64(*x) };
        let val = SegVal { id: j as u32, exp: 10 };
        let t = &mut tree;
        let (r, _, _) = lib_call(None, crate::run::INTERNAL_BUDGET, false, || t.insert_by_range(range, val));
        if let Err(e) = r {
            out.fail(if rc.obs(14) { 14 } else { 10 }, "point-insert-panicked", 0, format!("SegExpTree::<{}> over [{}, {}]: insert at point {} failed: {:?}", R::NAME, lo, hi, x, e));
            return out;
        }
    }
    if rc.obs(14) {
        let pc = tree.verif_place_count();
        for (p, _, v) in tree.verif_copies() {
            if p >= pc {
                out.fail(14, "place-unbacked", 0, format!("copy of id {} at place {} >= {}", v.id, p, pc));
                return out;
            }
        }
    }
    for y in pts.iter() {
        let range = SegRange { min: R::from_i64(*y), max: R::from_i64(*y) };
        let t = &mut tree;
        let (r, _, _) = lib_call(None, crate::run::INTERNAL_BUDGET, false, || {
            let mut v: Vec<u32> = t.iter_by_range(range, 0).map(|v| v.id).collect();
            v.sort();
            v
        });
        let got = match r {
            Ok(v) => v,
            Err(e) => {
                out.fail(if rc.obs(14) { 14 } else { 10 }, "point-query-panicked", 0, format!("SegExpTree::<{}> over [{}, {}]: query at point {} failed: {:?}", R::NAME, lo, hi, y, e));
                return out;
            }
        };
        let expected: Vec<u32> = pts.iter().enumerate().filter(|(_, x)| lay.bucket(**x) == lay.bucket(*y)).map(|(j, _)| j as u32).collect();
        out.observations += 1;
        if rc.obs(14) && got != expected {
            let gx: Vec<i64> = got.iter().map(|j| pts[*j as usize]).collect();
            let ex: Vec<i64> = expected.iter().map(|j| pts[*j as usize]).collect();
            out.fail(14, "bucket-mapping", 0, format!("SegExpTree::<{}> over [{}, {}] ({} points, bucket width {}): a point query at {} (bucket {}) finds the point values at {:?}, the reference mapping says {:?}", R::NAME, lo, hi, len, lay.width(), y, lay.bucket(*y), gx, ex));
            return out;
        }
    }
    // range ends must be bucketed by the same mapping as points: values over ranges that start
    // and end at misaligned coordinates around every bucket edge, observed by point queries
    let mut ranges: Vec<(i64, i64)> = Vec::new();
    for b in 0..nb.saturating_sub(1) {
        let l = lay.last_of(b);
        let f1 = lay.first_of(b + 1);
        ranges.push((l, f1));
        let f0 = lay.first_of(b);
        if f0 < l {
            ranges.push((f0 + 1, f1));
            ranges.push((f0 + (l - f0) / 2 + 1, f1.min(hi).max(l)));
        }
        if b + 2 < nb {
            ranges.push((l, lay.first_of(b + 2)));
        }
    }
    ranges.retain(|(a, b)| a <= b && *a >= lo && *b <= hi);
    ranges.truncate(160);
    for (j, (a, b)) in ranges.iter().enumerate() {
        let range = SegRange { min: R::from_i64(*a), max: R::from_i64(*b) };
        let val = SegVal { id: 100_000 + j as u32, exp: 10 };
        let t = &mut tree;
        let (r, _, _) = lib_call(None, crate::run::INTERNAL_BUDGET, false, || t.insert_by_range(range, val));
        if let Err(e) = r {
            out.fail(if rc.obs(14) { 14 } else { 10 }, "range-insert-panicked", 0, format!("SegExpTree::<{}> over [{}, {}]: insert of range [{}, {}] failed: {:?}", R::NAME, lo, hi, a, b, e));
            return out;
        }
    }
    if !ranges.is_empty() {
        out.class("domain_range_ends_checked");
    }
    for y in pts.iter() {
        let range = SegRange { min: R::from_i64(*y), max: R::from_i64(*y) };
        let t = &mut tree;
        let (r, _, _) = lib_call(None, crate::run::INTERNAL_BUDGET, false, || {
            let mut v: Vec<u32> = t.iter_by_range(range, 0).map(|v| v.id).filter(|id| *id >= 100_000).collect();
            v.sort();
            v
        });
        let got = match r {
            Ok(v) => v,
            Err(e) => {
                out.fail(if rc.obs(14) { 14 } else { 10 }, "point-query-panicked", 0, format!("SegExpTree::<{}> over [{}, {}]: query at point {} failed: {:?}", R::NAME, lo, hi, y, e));
                return out;
            }
        };
        let by = lay.bucket(*y);
        let expected: Vec<u32> = ranges.iter().enumerate().filter(|(_, (a, b))| lay.bucket(*a) <= by && by <= lay.bucket(*b)).map(|(j, _)| 100_000 + j as u32).collect();
        out.observations += 1;
        if rc.obs(14) && got != expected {
            let show = |ids: &Vec<u32>| ids.iter().take(6).map(|id| ranges[(*id - 100_000) as usize]).collect::<Vec<_>>();
            out.fail(14, "range-end-mapping", 0, format!("SegExpTree::<{}> over [{}, {}] (bucket width {}): a point query at {} (bucket {}) finds the range values {:?}…, the reference mapping of their end points says {:?}…", R::NAME, lo, hi, lay.width(), y, by, show(&got), show(&expected)));
            return out;
        }
    }
    // and the same ranges as queries: everything whose buckets meet the query's buckets, nothing else
    for (a, b) in ranges.iter() {
        let range = SegRange { min: R::from_i64(*a), max: R::from_i64(*b) };
        let t = &mut tree;
        let (r, _, _) = lib_call(None, crate::run::INTERNAL_BUDGET, false, || {
            let mut v: Vec<u32> = t.iter_by_range(range, 0).map(|v| v.id).collect();
            v.sort();
            v
        });
        let got = match r {
            Ok(v) => v,
            Err(e) => {
                out.fail(if rc.obs(14) { 14 } else { 10 }, "range-query-panicked", 0, format!("SegExpTree::<{}> over [{}, {}]: query over [{}, {}] failed: {:?}", R::NAME, lo, hi, a, b, e));
                return out;
            }
        };
        let (qa, qb) = (lay.bucket(*a), lay.bucket(*b));
        let mut expected: Vec<u32> = pts.iter().enumerate().filter(|(_, x)| qa <= lay.bucket(**x) && lay.bucket(**x) <= qb).map(|(j, _)| j as u32).collect();
        expected.extend(ranges.iter().enumerate().filter(|(_, (x, y))| lay.bucket(*x) <= qb && qa <= lay.bucket(*y)).map(|(j, _)| 100_000 + j as u32));
        expected.sort();
        out.observations += 1;
        if rc.obs(14) && got != expected {
            let missing: Vec<u32> = expected.iter().copied().filter(|e| !got.contains(e)).take(4).collect();
            let extra: Vec<u32> = got.iter().copied().filter(|e| !expected.contains(e)).take(4).collect();
            out.fail(14, "range-query-mapping", 0, format!("SegExpTree::<{}> over [{}, {}] (bucket width {}): a query over [{}, {}] (buckets {}..{}) misses value ids {:?} and yields unexpected ids {:?} (ids < 100000 are point values at the test coordinates, the others edge-straddling ranges)", R::NAME, lo, hi, lay.width(), a, b, qa, qb, missing, extra));
            return out;
        }
    }
    if rc.trace {
        out.trace.push(format!("bucket width {}, {} buckets in use, {} test points and {} edge-straddling ranges inserted and queried", lay.width(), nb, pts.len(), ranges.len()));
    }
    out.ops_run = pts.len() as u32 * 2;
    out
}


pub const DRAIN_STYLES: [&str; 6] = ["first", "next-then-for_each", "next-then-count", "skip-then-for_each", "next-then-last", "nth-then-rest"];

/// The ways a caller may consume the query iterator (it is an ordinary `Iterator`, so internal
/// iteration - `for_each`, `count`, `last`, `skip`, `nth` - is as much part of its contract as
/// `next`).  Returns (values seen one by one, driven to exhaustion?, values merely counted).
///   0 first k   : k == 0 -> `for` loop to the end; else k x `next`, then the iterator is dropped
///   1 next-then-for_each : k x `next`, rest through `for_each` (fold)
///   2 next-then-count    : k x `next`, rest through `count`
///   3 skip-then-for_each : `skip(k)`, rest through `for_each`
///   4 next-then-last     : k x `next`, then `last`
///   5 nth-then-rest      : `nth(k)`, rest through `next`
pub fn drain_query<I: Iterator<Item = SegVal>>(mut it: I, style: usize, k: usize) -> (Vec<SegVal>, bool, usize) {
    let mut got: Vec<SegVal> = Vec::new();
    if style == 0 && k == 0 {
        for v in it {
            got.push(v);
        }
        return (got, true, 0);
    }
    if style == 3 {
        it.skip(k).for_each(|v| got.push(v));
        return (got, true, 0);
    }
    if style == 5 {
        match it.nth(k) {
            Some(v) => got.push(v),
            None => return (got, true, 0),
        }
        for v in it {
            got.push(v);
        }
        return (got, true, 0);
    }
    for _ in 0..k {
        match it.next() {
            Some(v) => got.push(v),
            // the contract does not promise a fused iterator: stop at the first `None`
            None => return (got, true, 0),
        }
    }
    match style {
        0 => (got, false, 0),
        1 => {
            it.for_each(|v| got.push(v));
            (got, true, 0)
        }
        2 => {
            let n = it.count();
            (got, true, n)
        }
        _ => {
            if let Some(v) = it.last() {
                got.push(v);
            }
            (got, true, 0)
        }
    }
}
