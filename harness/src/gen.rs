//! proptest strategies producing `Case`s (raw operation lists + configuration).
//!
//! All randomness lives in here (and in proptest's RNG seeded from VERIF_SEED); interpreters are
//! pure functions of the case.

use crate::case::{Case, RawOp, NARGS};
use crate::interp_key::*;
use crate::interp_ord::*;
use crate::interp_seg::*;
use proptest::prelude::*;
use proptest::strategy::Union;
use std::ops::RangeInclusive;

pub type R = RangeInclusive<i64>;

#[derive(Clone, Debug)]
pub struct OpSpec {
    pub weight: u32,
    pub kind: u8,
    pub args: Vec<R>,
}

pub fn spec(weight: u32, kind: u8, args: &[R]) -> OpSpec {
    OpSpec { weight, kind, args: args.to_vec() }
}

fn op_strategy(s: &OpSpec) -> BoxedStrategy<RawOp> {
    let kind = s.kind;
    let mut rs: Vec<R> = s.args.clone();
    while rs.len() < NARGS {
        rs.push(0..=0);
    }
    (rs[0].clone(), rs[1].clone(), rs[2].clone(), rs[3].clone(), rs[4].clone())
        .prop_map(move |(a, b, c, d, e)| RawOp { kind, args: [a, b, c, d, e] })
        .boxed()
}

pub fn ops_strategy(table: &[OpSpec], len: RangeInclusive<usize>) -> BoxedStrategy<Vec<RawOp>> {
    let alts: Vec<(u32, BoxedStrategy<RawOp>)> = table.iter().filter(|s| s.weight > 0).map(|s| (s.weight, op_strategy(s))).collect();
    let one = Union::new_weighted(alts);
    prop::collection::vec(one, len).boxed()
}

fn pick<T: Clone + std::fmt::Debug + 'static>(items: &[T]) -> BoxedStrategy<T> {
    prop::sample::select(items.to_vec()).boxed()
}

pub const CAPS: &[i64] = &[8, 0, 1, 9, 300];
/// capacity hints beyond the usual ones: around powers of two, and large
pub const CAPS_WIDE: &[i64] = &[2, 3, 4, 5, 7, 15, 16, 17, 24, 31, 32, 33, 48, 63, 64, 65, 100, 127, 128, 129, 255, 256, 257, 511, 512, 513, 1000, 1023, 1024, 1025, 4096];

/// capacity hint of a tree / list: the five standard ones half of the time, otherwise anything up
/// to 70 or one of the values around powers of two
pub fn caps() -> BoxedStrategy<i64> {
    prop_oneof![5 => pick(CAPS), 3 => 0..=70i64, 2 => pick(CAPS_WIDE)].boxed()
}

// ------------------------------------------------------------------------------------------------
// expiring-key family

#[derive(Clone, Debug)]
pub struct KeyMix {
    pub coll: &'static str,
    pub us: Vec<i64>,
    pub dmax: i64,
    pub advmax: i64,
    /// weights for ins fl fle fleby get adv clear isempty
    pub w: [u32; 8],
    pub len: RangeInclusive<usize>,
    /// append an export op with this dt range
    pub final_export: Option<R>,
    pub snap: bool,
    pub edge_clock: bool,
}

pub fn key_table(u: i64, dmax: i64, advmax: i64, w: &[u32; 8]) -> Vec<OpSpec> {
    vec![
        spec(w[0], K_INS, &[0..=u - 1, 0..=dmax]),
        spec(w[1], K_FL, &[0..=u + 1]),
        spec(w[2], K_FLE, &[0..=u + 1]),
        spec(w[3], K_FLEBY, &[0..=u + 1, 0..=2]),
        spec(w[4], K_GET, &[0..=u + 1]),
        spec(w[5], K_ADV, &[0..=advmax]),
        spec(w[6], K_CLEAR, &[0..=advmax + 1]),
        spec(w[7], K_ISEMPTY, &[]),
        // big universes: now and then a mass expiry and a burst of queries that lazily removes it
        spec(if dmax >= 100 { 1 } else { 0 }, K_ADV, &[dmax / 2..=dmax]),
        spec(if dmax >= 100 && w[1] + w[2] + w[4] > 0 { 1 } else { 0 }, K_DRAIN, &[32..=400]),
        spec(if u >= 64 && w[0] > 0 { (w[0] / 12).max(1) } else { 0 }, K_RUN, &[0..=u - 1, 1..=80, 0..=1, 0..=dmax]),
        // entries that never expire (expiration == the type's maximum)
        spec((w[0] / 10).max(if w[0] > 0 { 1 } else { 0 }), K_INS, &[0..=u - 1, 500_000..=500_000]),
    ]
}

pub fn key_cases(prop: &'static str, mix: KeyMix) -> BoxedStrategy<Case> {
    key_cases_never(prop, mix, 0)
}

/// `never_share` > 0: that many extra parts (of the insert weight, in tenths) of the inserts never expire
pub fn key_cases_never(prop: &'static str, mix: KeyMix, never_share: u32) -> BoxedStrategy<Case> {
    let m = mix.clone();
    (pick(&m.us), caps(), 0..10u8)
        .prop_flat_map(move |(u, cap, edge)| {
            let mut table = key_table(u, m.dmax, m.advmax, &m.w);
            if never_share > 0 {
                table.push(spec(m.w[0] * never_share / 10, K_INS, &[0..=u - 1, 500_000..=500_000]));
            }
            let fin = m.final_export.clone();
            let m2 = m.clone();
            let exp_strategy: BoxedStrategy<Option<i64>> = match fin {
                Some(r) => r.prop_map(Some).boxed(),
                None => Just(None).boxed(),
            };
            (ops_strategy(&table, m.len.clone()), exp_strategy).prop_map(move |(mut ops, fin)| {
                if let Some(dt) = fin {
                    ops.push(RawOp::new(K_EXPORT, &[dt]));
                }
                let mut c = Case::new(prop, "key");
                c.set("coll", m2.coll).set("cap", cap).set("U", u);
                if m2.edge_clock && edge == 0 {
                    c.set("clock0", i32::MAX as i64 - 6);
                }
                // one case in five with 160-byte values
                if edge >= 8 {
                    c.set("val", "kbig");
                }
                if !m2.snap {
                    c.set("snap", 0);
                }
                c.ops = ops;
                c
            })
        })
        .boxed()
}

/// prefix / clear / suffix shape for C12
pub fn key_clear_cases(prop: &'static str, coll: &'static str, us: Vec<i64>, dmax: i64, advmax: i64) -> BoxedStrategy<Case> {
    key_clear_cases_sized(prop, coll, us, dmax, advmax, 0..=24)
}

pub fn key_clear_cases_sized(prop: &'static str, coll: &'static str, us: Vec<i64>, dmax: i64, advmax: i64, prefix: RangeInclusive<usize>) -> BoxedStrategy<Case> {
    (pick(&us), caps())
        .prop_flat_map(move |(u, cap)| {
            let pre = key_table(u, dmax, advmax, &[40, 6, 6, 6, 6, 25, 0, 2]);
            let suf = key_table(u, dmax, advmax, &[30, 10, 10, 10, 14, 16, 2, 4]);
            let suffix_len = if *prefix.end() > 24 { 500 } else { 30 };
            (ops_strategy(&pre, prefix.clone()), 0..=advmax + 1, ops_strategy(&suf, 0..=suffix_len), prop::option::weighted(0.5, 0..=dmax + 1)).prop_map(move |(a, c0, b, fin)| {
                let mut c = Case::new(prop, "key");
                c.set("coll", coll).set("cap", cap).set("U", u);
                if (c0 + a.len() as i64) % 6 == 0 {
                    c.set("clock0", i32::MAX as i64 - 6);
                }
                c.ops = a;
                c.ops.push(RawOp::new(K_CLEAR, &[c0]));
                c.ops.extend(b);
                if let Some(dt) = fin {
                    c.ops.push(RawOp::new(K_EXPORT, &[dt]));
                }
                c
            })
        })
        .boxed()
}

// ------------------------------------------------------------------------------------------------
// ordered map / set family

#[derive(Clone, Debug)]
pub struct OrdMix {
    pub family: &'static str,
    pub coll: &'static str,
    pub vals: Vec<&'static str>,
    pub us: Vec<i64>,
    /// weights for ins del get isempty clear hread hwrite hdel step walk
    pub w: [u32; 10],
    pub len: RangeInclusive<usize>,
    pub snap: bool,
    /// number of phases: 1 = one mix; 3 = ramp-up / mixed / drain
    pub phases: u8,
}

pub fn ord_table(u: i64, w: &[u32; 10]) -> Vec<OpSpec> {
    vec![
        spec(w[0], O_INS, &[0..=u - 1]),
        spec(w[1], O_DEL, &[0..=u - 1, 0..=3]),
        spec(w[2], O_GET, &[0..=u + 1]),
        spec(w[3], O_ISEMPTY, &[]),
        spec(w[4], O_CLEAR, &[]),
        spec(w[5], O_HREAD, &[0..=u + 1, 0..=2]),
        spec(w[6], O_HWRITE, &[0..=u + 1]),
        spec(w[7], O_HDEL, &[0..=u + 1]),
        spec(w[8], O_STEP, &[0..=u - 1, 0..=1]),
        spec(w[9], O_WALK, &[]),
        // monotone insertion runs (universes big enough to hold them)
        spec(if u >= 64 && w[0] > 0 { (w[0] / 12).max(1) } else { 0 }, O_RUN, &[0..=u - 1, 1..=80, 0..=1]),
    ]
}

pub fn ord_cases(prop: &'static str, mix: OrdMix) -> BoxedStrategy<Case> {
    let m = mix.clone();
    (pick(&m.us), caps(), pick(&m.vals))
        .prop_flat_map(move |(u, cap, val)| {
            let m2 = m.clone();
            let ops: BoxedStrategy<Vec<RawOp>> = if m.phases <= 1 {
                ops_strategy(&ord_table(u, &m.w), m.len.clone())
            } else {
                // ramp-up (insert heavy), mixed, drain (delete heavy)
                let mut up = m.w;
                up[0] = up[0] * 4 + 20;
                up[1] /= 4;
                up[7] /= 4;
                up[4] = 0;
                let mut down = m.w;
                down[0] /= 4;
                down[1] = down[1] * 3 + 20;
                down[7] = down[7] * 2 + 4;
                down[4] = 0;
                let third = (*m.len.end() / 3).max(1);
                (ops_strategy(&ord_table(u, &up), 0..=third), ops_strategy(&ord_table(u, &m.w), 0..=third), ops_strategy(&ord_table(u, &down), 0..=third))
                    .prop_map(|(a, b, c)| {
                        let mut v = a;
                        v.extend(b);
                        v.extend(c);
                        v
                    })
                    .boxed()
            };
            ops.prop_map(move |ops| {
                let mut c = Case::new(prop, m2.family);
                c.set("coll", m2.coll).set("val", val).set("cap", cap).set("U", u);
                if !m2.snap {
                    c.set("snap", 0);
                }
                c.ops = ops;
                c
            })
        })
        .boxed()
}

pub fn ord_clear_cases(prop: &'static str, family: &'static str, coll: &'static str, vals: Vec<&'static str>, us: Vec<i64>) -> BoxedStrategy<Case> {
    ord_clear_cases_sized(prop, family, coll, vals, us, 0..=30)
}

pub fn ord_clear_cases_sized(prop: &'static str, family: &'static str, coll: &'static str, vals: Vec<&'static str>, us: Vec<i64>, prefix: RangeInclusive<usize>) -> BoxedStrategy<Case> {
    (pick(&us), caps(), pick(&vals))
        .prop_flat_map(move |(u, cap, val)| {
            let steps = if family == "set" { 6 } else { 0 };
            let pre = ord_table(u, &[50, 10, 4, 1, 0, 2, 2, 2, 0, 0]);
            let suf = ord_table(u, &[30, 10, 20, 4, 2, 10, 6, 4, steps, steps / 3]);
            let suffix_len = if *prefix.end() > 30 { 500 } else { 30 };
            (ops_strategy(&pre, prefix.clone()), ops_strategy(&suf, 0..=suffix_len)).prop_map(move |(a, b)| {
                let mut c = Case::new(prop, family);
                c.set("coll", coll).set("val", val).set("cap", cap).set("U", u);
                c.ops = a;
                c.ops.push(RawOp::new(O_CLEAR, &[]));
                c.ops.extend(b);
                c
            })
        })
        .boxed()
}

// ------------------------------------------------------------------------------------------------
// segment tree family

/// (lo, len, rtype)
pub fn seg_domains(thorough: bool) -> Vec<(i64, i64, &'static str)> {
    let mut v: Vec<(i64, i64, &'static str)> = Vec::new();
    let lens: &[i64] = if thorough {
        &[17, 18, 31, 32, 33, 63, 64, 65, 100, 128, 129, 1000, 25601, (1 << 20) + 3, 10_000_000]
    } else {
        &[17, 18, 31, 32, 33, 63, 64, 65, 100, 129, 1000, 25601, (1 << 20) + 3]
    };
    for &len in lens {
        for lo in [0i64, -(len / 2), -10240, -1_000_000, i32::MIN as i64, i32::MAX as i64 - len + 1] {
            v.push((lo, len, "i32"));
        }
        v.push((-(len / 2), len, "i64"));
        v.push((1i64 << 40, len, "i64"));
    }
    v.push((-(1i64 << 61), 1i64 << 62, "i64"));
    v.push((0, (1i64 << 33) + 5, "i64"));
    v.push((-128, 256, "i8"));
    v.push((-100, 33, "i8"));
    v.push((0, 256, "u8"));
    v.push((0, 65536, "u16"));
    v.push((-32768, 65536, "i16"));
    v.push((0, 1i64 << 32, "u32"));
    v.push(((1i64 << 32) - 40, 40, "u32"));
    v
}

#[derive(Clone, Debug)]
pub struct SegMix {
    /// weights for ins query adv clear queryall pins pquery
    pub w: [u32; 7],
    pub len: RangeInclusive<usize>,
    pub thorough: bool,
    pub only_small: bool,
}

/// "hot spot" histories: most ranges are drawn from a handful of buckets, so the same places are
/// written again and again and their lists grow past 64 / 128 entries
pub fn seg_hot_cases(prop: &'static str, w: [u32; 7], len: RangeInclusive<usize>, only_32: bool, mode: Option<(&'static str, &'static str)>) -> BoxedStrategy<Case> {
    let doms: Vec<(i64, i64, &'static str)> = if only_32 {
        vec![(0, 32, "i32"), (-16, 32, "i32")]
    } else {
        vec![(0, 32, "i32"), (0, 128, "i32"), (-10240, 25601, "i32"), (5, 17, "i32"), (0, 1000, "i64")]
    };
    (pick(&doms), 0..=27i64, 1..=4i64)
        .prop_flat_map(move |((lo, dlen, rt), base, width)| {
            let hot = base..=base + width;
            let table = vec![
                spec(w[0] * 4, S_INS, &[hot.clone(), 0..=1, hot.clone(), 0..=1, 0..=4]),
                spec(w[0], S_INS, &[0..=31, 0..=3, 0..=31, 0..=3, 0..=4]),
                spec(w[1] * 2, S_QUERY, &[hot.clone(), 0..=1, hot.clone(), 0..=1, 0..=35]),
                spec(w[1], S_QUERY, &[0..=31, 0..=3, 0..=31, 0..=3, 0..=35]),
                spec(w[2], S_ADV, &[0..=2]),
                spec(w[3], S_CLEAR, &[0..=2, 0..=1]),
                spec(w[4], S_QUERYALL, &[]),
                spec(w[5] * 2, S_PINS, &[hot.clone(), 0..=1, 0..=4]),
                spec(w[6], S_PQUERY, &[hot.clone(), 0..=1]),
            ];
            ops_strategy(&table, len.clone()).prop_map(move |ops| {
                let mut c = Case::new(prop, "seg");
                c.set("lo", lo).set("len", dlen).set("rtype", rt);
                if let Some((k, v)) = mode {
                    c.set(k, v);
                }
                c.ops = ops;
                c
            })
        })
        .boxed()
}

pub fn seg_table(w: &[u32; 7]) -> Vec<OpSpec> {
    vec![
        spec(w[0], S_INS, &[0..=31, 0..=11, 0..=31, 0..=11, 0..=4]),
        spec((w[0] / 10).max(if w[0] > 0 { 1 } else { 0 }), S_INS, &[0..=31, 0..=11, 0..=31, 0..=11, 9..=9]),
        spec(w[1], S_QUERY, &[0..=31, 0..=11, 0..=31, 0..=11, 0..=35]),
        spec(w[2], S_ADV, &[0..=2]),
        spec(w[3], S_CLEAR, &[0..=2, 0..=1]),
        spec(w[4], S_QUERYALL, &[]),
        spec(w[5], S_PINS, &[0..=31, 0..=11, 0..=4]),
        spec(w[6], S_PQUERY, &[0..=31, 0..=11]),
        spec((w[1] / 4).max(if w[1] > 0 { 1 } else { 0 }), S_QVAL, &[0..=15, 0..=35]),
    ]
}

pub fn seg_cases(prop: &'static str, mix: SegMix) -> BoxedStrategy<Case> {
    let doms: Vec<(i64, i64, &'static str)> = if mix.only_small {
        vec![(0, 32, "i32"), (-16, 32, "i32"), (5, 17, "i32"), (-7, 31, "i32"), (0, 24, "i64")]
    } else {
        seg_domains(mix.thorough)
    };
    let table = seg_table(&mix.w);
    let len = mix.len.clone();
    (pick(&doms), ops_strategy(&table, len), 0..8u8)
        .prop_map(move |((lo, dlen, rt), ops, edge)| {
            let mut c = Case::new(prop, "seg");
            c.set("lo", lo).set("len", dlen).set("rtype", rt);
            if edge == 0 {
                // the last ticks of the expiration type
                c.set("clock0", i32::MAX as i64 - 3);
            }
            c.ops = ops;
            c
        })
        .boxed()
}

pub fn seg_clear_cases(prop: &'static str) -> BoxedStrategy<Case> {
    let doms = seg_domains(false);
    let pre = seg_table(&[40, 10, 20, 0, 4, 10, 4]);
    let suf = seg_table(&[30, 25, 12, 2, 6, 10, 10]);
    (pick(&doms), ops_strategy(&pre, 0..=24), 0..=2i64, ops_strategy(&suf, 0..=30))
        .prop_map(move |((lo, dlen, rt), a, c0, b)| {
            let mut c = Case::new(prop, "seg");
            c.set("lo", lo).set("len", dlen).set("rtype", rt);
            if (a.len() + b.len()) % 7 == 0 {
                c.set("clock0", i32::MAX as i64 - 3);
            }
            c.ops = a;
            c.ops.push(RawOp::new(S_CLEAR, &[c0, ((c.ops.len() as i64) + c0) % 2]));
            c.ops.extend(b);
            c
        })
        .boxed()
}

/// random domains for C14: (lo, len) over the coordinate types
pub fn seg_domain_cases(prop: &'static str) -> BoxedStrategy<Case> {
    let i32c = (any::<i32>(), prop_oneof![1i64..=40, 1i64..=100_000, 1i64..=(1i64 << 32)]).prop_filter_map("fits i32", |(lo, len)| {
        let lo = lo as i64;
        if lo + len - 1 <= i32::MAX as i64 {
            Some((lo, len, "i32"))
        } else {
            let lo2 = i32::MAX as i64 - len + 1;
            if lo2 >= i32::MIN as i64 {
                Some((lo2, len, "i32"))
            } else {
                None
            }
        }
    });
    let i64c = ((-(1i64 << 61))..=(1i64 << 61), prop_oneof![1i64..=40, 1i64..=(1i64 << 20), 1i64..=(1i64 << 61)]).prop_map(|(lo, len)| (lo, len, "i64"));
    let u32c = (0i64..=(u32::MAX as i64), 1i64..=(1i64 << 32)).prop_map(|(lo, len)| {
        let lo = lo.min(u32::MAX as i64 - len + 1).max(0);
        (lo, len.min(u32::MAX as i64 - lo + 1), "u32")
    });
    let i16c = (-32768i64..=32767, 1i64..=65536).prop_map(|(lo, len)| {
        let lo = lo.min(32767 - len + 1).max(-32768);
        (lo, len.min(32767 - lo + 1), "i16")
    });
    prop_oneof![4 => i32c, 3 => i64c, 1 => u32c, 1 => i16c]
        .prop_map(move |(lo, len, rt)| {
            let mut c = Case::new(prop, "seg");
            c.set("lo", lo).set("len", len).set("rtype", rt).set("domain_battery", 1);
            c
        })
        .boxed()
}


/// Histories made mostly of monotone insertion runs (block sizes around powers of two included),
/// interleaved with the given observation / removal mix (weights as in `ord_table`, `ins` unused).
pub fn ord_runs_cases(prop: &'static str, family: &'static str, coll: &'static str, vals: Vec<&'static str>, w: [u32; 10]) -> BoxedStrategy<Case> {
    (pick(&[400i64, 2000]), caps(), pick(&vals))
        .prop_flat_map(move |(u, cap, val)| {
            let lens: Vec<i64> = vec![1, 2, 3, 5, 7, 8, 9, 15, 16, 17, 24, 30, 31, 32, 33, 35, 40, 48, 63, 64, 65, 70, 100, 127, 128, 129, 140];
            let run = (0..=u - 1, pick(&lens), 0..=1i64).prop_map(|(s, l, d)| RawOp::new(O_RUN, &[s, l, d])).boxed();
            let mut table = ord_table(u, &w);
            table.retain(|t| t.kind != O_RUN && t.kind != O_INS);
            let other: Vec<(u32, BoxedStrategy<RawOp>)> = table.iter().filter(|t| t.weight > 0).map(|t| (t.weight, op_strategy(t))).collect();
            let total: u32 = other.iter().map(|o| o.0).sum();
            let mut alts = vec![(total.max(1) * 2, run)];
            alts.extend(other);
            let one = Union::new_weighted(alts);
            prop::collection::vec(one, 2..=14).prop_map(move |ops| {
                let mut c = Case::new(prop, family);
                c.set("coll", coll).set("val", val).set("cap", cap).set("U", u);
                c.ops = ops;
                c
            })
        })
        .boxed()
}

// ------------------------------------------------------------------------------------------------
// huge structures (size thresholds, deep paths, arenas of 10^4..10^6 slots)

/// sizes around the powers of two between 2^12 and 2^18 and the entry count (196 606) at which a
/// monotone fill reaches a path of 33 nodes
pub const HUGE_SIZES: &[i64] = &[4000, 4100, 5000, 8200, 9000, 16400, 20000, 33000, 40000, 65500, 65600, 70000, 100_000, 131_100, 140_000, 197_000, 270_000];
pub const HUGE_CAPS: &[i64] = &[8, 0, 8, 1, 300, 4096, 5000, 65536, 65537, 70000, 131_072, 300_000];

fn huge_sizes(max: i64) -> BoxedStrategy<i64> {
    let v: Vec<i64> = HUGE_SIZES.iter().copied().filter(|n| *n <= max).collect();
    pick(&v)
}

/// bulk fill / operations / (clear / bulk refill / operations) on map and set collections, no
/// per-step snapshots: structural checkpoints after every bulk, every clear and at the end, sampled
/// observation battery at the end
pub fn ord_huge_cases(prop: &'static str, family: &'static str, coll: &'static str, vals: Vec<&'static str>, w: [u32; 10], max: i64) -> BoxedStrategy<Case> {
    (huge_sizes(max), pick(HUGE_CAPS), pick(&vals), 0..=2i64, 0..=3u8, 0..=2i64)
        .prop_flat_map(move |(n, cap, val, order, second, order2)| {
            // lists: only appending fills (an insertion anywhere else moves O(n) entries)
            let order = if coll == "list" { 0 } else { order };
            let u = 2 * n + 10;
            let table = ord_table(u, &w);
            let n2s: Vec<i64> = vec![n / 2, n, n + 1000, (2 * n).min(max.max(n))];
            (ops_strategy(&table, 0..=40), ops_strategy(&table, 0..=40), pick(&n2s)).prop_map(move |(a, b, n2)| {
                let mut c = Case::new(prop, family);
                c.set("coll", coll).set("val", val).set("cap", cap).set("U", u).set("snap", 0).set("dense", 0);
                c.ops.push(RawOp::new(O_BULK, &[n, order]));
                c.ops.extend(a);
                if second >= 1 {
                    c.ops.push(RawOp::new(O_CLEAR, &[]));
                    if second >= 2 {
                        c.ops.push(RawOp::new(O_BULK, &[n2, if coll == "list" { 0 } else { order2 }]));
                    }
                    c.ops.extend(b);
                }
                c
            })
        })
        .boxed()
}

/// the same shape for the expiring-key collections: `bulk n order expiry-pattern`, operations,
/// (clear, refill, operations), export
pub fn key_huge_cases(prop: &'static str, coll: &'static str, w: [u32; 8], max: i64, export: bool) -> BoxedStrategy<Case> {
    (huge_sizes(max), pick(HUGE_CAPS), 0..=2i64, 0..=3i64, 0..=3u8, 0..=2i64)
        .prop_flat_map(move |(n, cap, order, pattern, second, order2)| {
            // "list" / "both": only appending fills (an insertion anywhere else moves O(n) entries)
            let order = if coll != "tree" { 0 } else { order };
            let order2 = if coll != "tree" { 0 } else { order2 };
            let coll = if coll == "both" { "tree" } else { coll };
            let table = key_table(n + 10, 40, 3, &w);
            let n2s: Vec<i64> = vec![n / 2, n, n + 1000];
            (ops_strategy(&table, 0..=30), ops_strategy(&table, 0..=30), pick(&n2s), 0..=3i64, 0..=3i64).prop_map(move |(a, b, n2, pattern2, dt)| {
                let mut c = Case::new(prop, "key");
                c.set("coll", coll).set("cap", cap).set("U", n + 10).set("snap", 0);
                c.ops.push(RawOp::new(K_BULK, &[n, order, pattern]));
                c.ops.extend(a);
                if second >= 1 {
                    c.ops.push(RawOp::new(K_CLEAR, &[0]));
                    if second >= 2 {
                        c.ops.push(RawOp::new(K_BULK, &[n2, order2, pattern2]));
                    }
                    c.ops.extend(b);
                }
                if export {
                    c.ops.push(RawOp::new(K_EXPORT, &[dt]));
                }
                c
            })
        })
        .boxed()
}

/// Bursts of 100-320 inserts into one or two hot buckets (lists of 128+ / 256+ copies), a jump of
/// the clock that expires all of them at once, then queries: whole lists expire together, while the
/// neighbouring places hold short lists with a few expired copies of their own.
pub fn seg_mass_expiry_cases(prop: &'static str) -> BoxedStrategy<Case> {
    let doms: Vec<(i64, i64, &'static str)> = vec![(0, 32, "i32"), (0, 128, "i32"), (-10240, 25601, "i32"), (5, 17, "i32"), (0, 1000, "i64"), (0, 1i64 << 33, "i64")];
    (pick(&doms), 0..=29i64, 0..=2i64)
        .prop_flat_map(move |((lo, dlen, rt), base, width)| {
            let hot = base..=base + width;
            let burst = vec![
                spec(20, S_INS, &[hot.clone(), 0..=1, hot.clone(), 0..=1, 1..=3]),
                spec(6, S_PINS, &[hot.clone(), 0..=1, 1..=3]),
                spec(3, S_INS, &[0..=31, 0..=3, 0..=31, 0..=3, 0..=4]),
                spec(1, S_QUERY, &[0..=31, 0..=3, 0..=31, 0..=3, 0..=35]),
                spec(1, S_ADV, &[0..=1]),
            ];
            let looks = vec![
                spec(3, S_QUERYALL, &[]),
                spec(3, S_QUERY, &[0..=31, 0..=3, 0..=31, 0..=3, 0..=35]),
                spec(2, S_QUERY, &[hot.clone(), 0..=1, hot.clone(), 0..=1, 0..=35]),
                spec(1, S_PQUERY, &[0..=31, 0..=3]),
            ];
            let phase = (ops_strategy(&burst, 100..=320), 4..=12i64, ops_strategy(&looks, 1..=6));
            prop::collection::vec(phase, 1..=3).prop_map(move |phases| {
                let mut c = Case::new(prop, "seg");
                c.set("lo", lo).set("len", dlen).set("rtype", rt);
                for (a, adv, b) in phases {
                    c.ops.extend(a);
                    c.ops.push(RawOp::new(S_ADV, &[adv]));
                    c.ops.extend(b);
                }
                c
            })
        })
        .boxed()
}

// ------------------------------------------------------------------------------------------------
// long churn with sparse observations: hundreds of mutations between two looks, tiny universes, so
// that state carried from one observation to the next (caches keyed on the last query, generation
// counters, amortised work every k-th operation) meets the same keys and slots again much later

pub fn key_sparse_cases(prop: &'static str, coll: &'static str) -> BoxedStrategy<Case> {
    (pick(&[2i64, 3, 4, 6]), caps(), 1..=3i64, 0..=2u32)
        .prop_flat_map(move |(u, cap, dmax, looks)| {
            let table = vec![
                spec(40, K_INS, &[0..=u - 1, 1..=dmax]),
                spec(30, K_ADV, &[1..=2]),
                spec(4, K_ADV, &[0..=0]),
                spec(1 + looks, K_GET, &[0..=u + 1]),
                spec(1, K_FL, &[0..=u + 1]),
                spec(1, K_FLE, &[0..=u + 1]),
                spec(1, K_FLEBY, &[0..=u + 1, 0..=2]),
            ];
            ops_strategy(&table, 600..=3000).prop_map(move |ops| {
                let mut c = Case::new(prop, "key");
                c.set("coll", coll).set("cap", cap).set("U", u).set("snap", 0);
                c.ops = ops;
                c
            })
        })
        .boxed()
}

pub fn ord_sparse_cases(prop: &'static str, family: &'static str, coll: &'static str, vals: Vec<&'static str>) -> BoxedStrategy<Case> {
    (pick(&[2i64, 3, 4, 8]), caps(), pick(&vals), 0..=2u32)
        .prop_flat_map(move |(u, cap, val, looks)| {
            let steps = if family == "set" { 1 } else { 0 };
            let table = vec![
                spec(40, O_INS, &[0..=u - 1]),
                spec(30, O_DEL, &[0..=u - 1, 1..=3]),
                spec(6, O_HDEL, &[0..=u + 1]),
                spec(1 + looks, O_GET, &[0..=u + 1]),
                spec(1, O_HREAD, &[0..=u + 1, 0..=2]),
                spec(1, O_HWRITE, &[0..=u + 1]),
                spec(steps, O_STEP, &[0..=u - 1, 0..=1]),
            ];
            ops_strategy(&table, 600..=3000).prop_map(move |ops| {
                let mut c = Case::new(prop, family);
                c.set("coll", coll).set("val", val).set("cap", cap).set("U", u).set("snap", 0).set("dense", 0);
                c.ops = ops;
                c
            })
        })
        .boxed()
}

pub fn seg_sparse_cases(prop: &'static str) -> BoxedStrategy<Case> {
    let doms: Vec<(i64, i64, &'static str)> = vec![(0, 32, "i32"), (-16, 32, "i32"), (5, 17, "i32"), (0, 1000, "i64")];
    (pick(&doms), 0..=2u32)
        .prop_flat_map(move |((lo, dlen, rt), looks)| {
            let table = vec![
                spec(30, S_INS, &[0..=31, 0..=3, 0..=31, 0..=3, 1..=3]),
                spec(12, S_PINS, &[0..=31, 0..=3, 1..=3]),
                spec(30, S_ADV, &[0..=2]),
                spec(1 + looks, S_QUERY, &[0..=31, 0..=3, 0..=31, 0..=3, 0..=35]),
                spec(1, S_PQUERY, &[0..=31, 0..=3]),
                spec(1, S_QUERYALL, &[]),
            ];
            ops_strategy(&table, 600..=2500).prop_map(move |ops| {
                let mut c = Case::new(prop, "seg");
                c.set("lo", lo).set("len", dlen).set("rtype", rt);
                c.ops = ops;
                c
            })
        })
        .boxed()
}

/// The whole universe of n keys inserted in random order, most entries short-lived, then the clock
/// moves past their expirations and the tree is exported: mass expiry inside the export itself, on
/// arenas that are (often exactly) full - hint n+1, or 8 with its growth steps.
pub fn key_full_universe_cases(prop: &'static str, coll: &'static str) -> BoxedStrategy<Case> {
    (1..=70i64, 0..3u8, caps(), 0..=3i64, 1..=3i64)
        .prop_flat_map(move |(n, capsel, cap0, survivors, adv)| {
            let cap = match capsel {
                0 => n + 1,
                1 => 8,
                _ => cap0,
            };
            // `survivors` of the n inserts (at random positions) get a long life
            let ins = (0..=n - 1, prop_oneof![12 => Just(1i64), 2 => Just(2i64), (survivors as u32) => Just(60i64)]).prop_map(|(sel, d)| RawOp::new(K_INS, &[sel, d]));
            (prop::collection::vec(ins, n as usize..=n as usize), 0..=2i64).prop_map(move |(mut ops, dt)| {
                ops.push(RawOp::new(K_ADV, &[adv]));
                ops.push(RawOp::new(K_EXPORT, &[dt]));
                let mut c = Case::new(prop, "key");
                c.set("coll", coll).set("cap", cap).set("U", n);
                c.ops = ops;
                c
            })
        })
        .boxed()
}

/// C12 on the segment tree, phase-structured: a few (mostly multi-place) values, a clock jump after
/// which most or all of them are expired, a few queries that are often abandoned after one or two
/// items (so some expired copies are dropped and others are not), `clear` with a clock restart, new
/// inserts, then whole-domain and point queries compared with the fresh twin.
pub fn seg_expire_partial_clear_cases(prop: &'static str) -> BoxedStrategy<Case> {
    let doms: Vec<(i64, i64, &'static str)> = vec![(0, 32, "i32"), (-16, 32, "i32"), (5, 17, "i32"), (0, 1000, "i64"), (-10240, 25601, "i32")];
    let ins = vec![
        spec(10, S_INS, &[0..=31, 0..=3, 0..=31, 0..=3, 1..=4]),
        spec(2, S_PINS, &[0..=31, 0..=3, 1..=4]),
        spec(1, S_ADV, &[0..=1]),
    ];
    // consumption argument 6*style + k: small k = abandoned early
    let looks = vec![
        spec(6, S_QUERY, &[0..=31, 0..=3, 0..=31, 0..=3, 0..=35]),
        spec(3, S_QUERY, &[0..=3, 0..=0, 28..=31, 1..=1, 0..=35]),
        spec(2, S_PQUERY, &[0..=31, 0..=3]),
        spec(2, S_QVAL, &[0..=7, 0..=35]),
        spec(1, S_QUERYALL, &[]),
        spec(2, S_ADV, &[0..=3]),
    ];
    let after = vec![
        spec(4, S_QUERYALL, &[]),
        spec(6, S_PQUERY, &[0..=31, 0..=3]),
        spec(4, S_QUERY, &[0..=31, 0..=3, 0..=31, 0..=3, 0..=0]),
        spec(3, S_INS, &[0..=31, 0..=3, 0..=31, 0..=3, 1..=4]),
        spec(2, S_ADV, &[0..=2]),
    ];
    // second wave: everything left expires, then narrow fully consumed looks retire values place by place
    let narrow = vec![
        spec(8, S_QVAL, &[0..=7, 0..=0]),
        spec(4, S_PQUERY, &[0..=31, 0..=3]),
        spec(2, S_QUERY, &[0..=31, 0..=3, 0..=31, 0..=3, 0..=0]),
        spec(1, S_ADV, &[0..=1]),
    ];
    (pick(&doms), ops_strategy(&ins, 1..=7), 1..=3i64, ops_strategy(&looks, 0..=6), (0..=6i64, ops_strategy(&narrow, 0..=10)), 0..=2i64, ops_strategy(&ins, 1..=9), ops_strategy(&after, 3..=14))
        .prop_map(move |((lo, dlen, rt), a, jump, b, (jump2, b2), c0, c, d)| {
            let mut k = Case::new(prop, "seg");
            k.set("lo", lo).set("len", dlen).set("rtype", rt);
            k.ops = a;
            k.ops.push(RawOp::new(S_ADV, &[jump]));
            k.ops.extend(b);
            k.ops.push(RawOp::new(S_ADV, &[jump2]));
            k.ops.extend(b2);
            k.ops.push(RawOp::new(S_CLEAR, &[c0, (jump + jump2) % 2]));
            k.ops.extend(c);
            k.ops.extend(d);
            k
        })
        .boxed()
}

// ------------------------------------------------------------------------------------------------
// locality: a sweep line works in one neighbourhood of the key space. A tree of 40-250 entries is
// built over the whole universe, then every operation of the history addresses a window of 6-16
// adjacent keys, without per-step observation batteries (a look can refresh or repair what the
// previous operation left behind). Conjunctions of neighbouring operations - remove two neighbours
// and re-insert, query between two keys and insert there, handle to the predecessor of what was just
// inserted - become frequent instead of needing a coincidence of uniformly drawn keys.

pub fn ord_local_cases(prop: &'static str, family: &'static str, coll: &'static str, vals: Vec<&'static str>, w: [u32; 10]) -> BoxedStrategy<Case> {
    (pick(&[64i64, 128, 400]), caps(), pick(&vals), 6..=16i64)
        .prop_flat_map(move |(u, cap, val, width)| {
            (0..=u - width - 1, 20..=(u * 2 / 3).min(250) as usize).prop_flat_map(move |(base, nfill)| {
                let fill = prop::collection::vec((0..=u - 1).prop_map(|k| RawOp::new(O_INS, &[k])), nfill..=nfill);
                let win = base..=base + width;
                // probe arguments are key + 1
                let pwin = base + 1..=base + width + 1;
                let table = vec![
                    spec(w[0], O_INS, &[win.clone()]),
                    spec(w[1], O_DEL, &[win.clone(), 1..=3]),
                    spec(w[2], O_GET, &[pwin.clone()]),
                    spec(w[5], O_HREAD, &[pwin.clone(), 0..=2]),
                    spec(w[6], O_HWRITE, &[pwin.clone()]),
                    spec(w[7], O_HDEL, &[pwin.clone()]),
                    spec(w[8], O_STEP, &[win.clone(), 0..=1]),
                    spec(1, O_INS, &[0..=u - 1]),
                    spec(1, O_DEL, &[0..=u - 1, 1..=3]),
                ];
                (fill, ops_strategy(&table, 20..=160)).prop_map(move |(mut ops, local)| {
                    ops.extend(local);
                    let mut c = Case::new(prop, family);
                    c.set("coll", coll).set("val", val).set("cap", cap).set("U", u).set("dense", 0).set("local", 1);
                    c.ops = ops;
                    c
                })
            })
        })
        .boxed()
}

pub fn key_local_cases(prop: &'static str, coll: &'static str, w: [u32; 8], export: bool) -> BoxedStrategy<Case> {
    (pick(&[64i64, 128, 400]), caps(), 6..=16i64, 2..=12i64)
        .prop_flat_map(move |(u, cap, width, dmax)| {
            (0..=u - width - 1, 20..=(u * 2 / 3).min(250) as usize).prop_flat_map(move |(base, nfill)| {
                let fill = prop::collection::vec((0..=u - 1, 1..=dmax * 3).prop_map(|(k, d)| RawOp::new(K_INS, &[k, d])), nfill..=nfill);
                let win = base..=base + width;
                let pwin = base + 1..=base + width + 1;
                let table = vec![
                    spec(w[0], K_INS, &[win.clone(), 0..=dmax]),
                    spec(w[1], K_FL, &[pwin.clone()]),
                    spec(w[2], K_FLE, &[pwin.clone()]),
                    spec(w[3], K_FLEBY, &[pwin.clone(), 0..=2]),
                    spec(w[4], K_GET, &[pwin.clone()]),
                    spec(w[5], K_ADV, &[0..=2]),
                    spec(1, K_INS, &[0..=u - 1, 0..=dmax]),
                ];
                (fill, ops_strategy(&table, 20..=160), 0..=dmax).prop_map(move |(mut ops, local, dt)| {
                    ops.extend(local);
                    if export {
                        ops.push(RawOp::new(K_EXPORT, &[dt]));
                    }
                    let mut c = Case::new(prop, "key");
                    c.set("coll", coll).set("cap", cap).set("U", u).set("local", 1);
                    c.ops = ops;
                    c
                })
            })
        })
        .boxed()
}

/// monotone fill (1-3 runs), a delete-heavy phase that leaves the tree partly drained, `clear`, then
/// a suffix of inserts, runs and observations (C12: the cleared collection against a fresh twin)
pub fn ord_fill_drain_clear_cases(prop: &'static str, family: &'static str, coll: &'static str, vals: Vec<&'static str>) -> BoxedStrategy<Case> {
    (pick(&[64i64, 200]), caps(), pick(&vals))
        .prop_flat_map(move |(u, cap, val)| {
            let lens: Vec<i64> = vec![7, 8, 15, 16, 24, 31, 32, 40, 63, 64, 100, 127];
            let run = (0..=u - 1, pick(&lens), 0..=1i64).prop_map(|(s, l, d)| RawOp::new(O_RUN, &[s, l, d])).boxed();
            let steps = if family == "set" { 3 } else { 0 };
            let drain = vec![
                spec(30, O_DEL, &[0..=u - 1, 1..=3]),
                spec(10, O_HDEL, &[0..=u + 1]),
                spec(4, O_INS, &[0..=u - 1]),
                spec(3, O_GET, &[0..=u + 1]),
            ];
            let suffix = vec![
                spec(30, O_INS, &[0..=u - 1]),
                spec(6, O_RUN, &[0..=u - 1, 1..=40, 0..=1]),
                spec(10, O_DEL, &[0..=u - 1, 0..=3]),
                spec(12, O_GET, &[0..=u + 1]),
                spec(6, O_HREAD, &[0..=u + 1, 0..=2]),
                spec(3, O_HDEL, &[0..=u + 1]),
                spec(steps, O_STEP, &[0..=u - 1, 0..=1]),
                spec(steps / 3, O_WALK, &[]),
                spec(2, O_ISEMPTY, &[]),
            ];
            (prop::collection::vec(run, 1..=3), ops_strategy(&drain, 3..=70), ops_strategy(&suffix, 3..=40)).prop_map(move |(mut ops, d, sfx)| {
                ops.extend(d);
                ops.push(RawOp::new(O_CLEAR, &[]));
                ops.extend(sfx);
                let mut c = Case::new(prop, family);
                c.set("coll", coll).set("val", val).set("cap", cap).set("U", u);
                c.ops = ops;
                c
            })
        })
        .boxed()
}
