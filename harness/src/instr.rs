//! Instrumented key / value / closure types.
//!
//! A thread-local control block counts user callbacks made by the library while a library call is
//! *armed*, can make the j-th callback panic (C18), records the keys handed to the comparison code
//! (C20) and bounds the number of callbacks per library call (C10, loops that call user code).
//! Outside armed sections (model code, oracles) the instrumented types behave like plain values.

use i_tree::set::sort::KeyValue;
use i_tree::{ExpiredKey, ExpiredVal};
use std::cell::{Cell, RefCell};
use std::cmp::Ordering;

pub struct InjectedPanic;
pub struct BudgetPanic;

pub struct Ctl {
    pub armed: Cell<bool>,
    pub calls: Cell<u64>,
    /// 0-based index of the callback (within the armed section) that must panic
    pub countdown: Cell<Option<u64>>,
    pub budget: Cell<u64>,
    pub record: Cell<bool>,
    pub injected: Cell<bool>,
    pub log: RefCell<Vec<(i32, i32, u32)>>,
}

thread_local! {
    pub static CTL: Ctl = Ctl {
        armed: Cell::new(false),
        calls: Cell::new(0),
        countdown: Cell::new(None),
        budget: Cell::new(u64::MAX),
        record: Cell::new(false),
        injected: Cell::new(false),
        log: RefCell::new(Vec::new()),
    };
}

/// Reset all instrumentation state (top of every case).
pub fn reset() {
    CTL.with(|c| {
        c.armed.set(false);
        c.calls.set(0);
        c.countdown.set(None);
        c.budget.set(u64::MAX);
        c.record.set(false);
        c.injected.set(false);
        c.log.borrow_mut().clear();
    });
}

#[inline]
pub fn tick() {
    CTL.with(|c| {
        if !c.armed.get() {
            return;
        }
        let idx = c.calls.get();
        c.calls.set(idx + 1);
        if c.countdown.get() == Some(idx) {
            c.countdown.set(None);
            c.injected.set(true);
            c.armed.set(false);
            std::panic::panic_any(InjectedPanic);
        }
        if idx + 1 > c.budget.get() {
            c.armed.set(false);
            std::panic::panic_any(BudgetPanic);
        }
    });
}

#[inline]
fn record(k: &XKey) {
    CTL.with(|c| {
        if c.armed.get() && c.record.get() {
            c.log.borrow_mut().push((k.k, k.exp, k.serial));
        }
    });
}

/// Arm the instrumentation for one library call.
pub fn arm(countdown: Option<u64>, budget: u64, record: bool) {
    CTL.with(|c| {
        c.calls.set(0);
        c.countdown.set(countdown);
        c.budget.set(budget);
        c.record.set(record);
        c.injected.set(false);
        c.log.borrow_mut().clear();
        c.armed.set(true);
    });
}

/// Disarm; returns (callbacks made, injected?, log).
pub fn disarm() -> (u64, bool, Vec<(i32, i32, u32)>) {
    CTL.with(|c| {
        c.armed.set(false);
        c.countdown.set(None);
        let log = std::mem::take(&mut *c.log.borrow_mut());
        (c.calls.get(), c.injected.get(), log)
    })
}

// ------------------------------------------------------------------------------------------------
// key of the expiring collections

#[derive(Clone, Copy, Debug)]
pub struct XKey {
    pub k: i32,
    pub exp: i32,
    /// unique per insert / probe, so "the operation's own key" is recognisable in the C20 log
    pub serial: u32,
}

impl XKey {
    pub fn new(k: i32, exp: i32, serial: u32) -> Self {
        XKey { k, exp, serial }
    }
}

impl Ord for XKey {
    #[inline]
    fn cmp(&self, other: &Self) -> Ordering {
        tick();
        record(self);
        record(other);
        self.k.cmp(&other.k)
    }
}

impl PartialOrd for XKey {
    #[inline]
    fn partial_cmp(&self, other: &Self) -> Option<Ordering> {
        Some(self.cmp(other))
    }
}

impl PartialEq for XKey {
    #[inline]
    fn eq(&self, other: &Self) -> bool {
        tick();
        record(self);
        record(other);
        self.k == other.k
    }
}

impl Eq for XKey {}

impl ExpiredKey<i32> for XKey {
    #[inline]
    fn expiration(&self) -> i32 {
        tick();
        self.exp
    }
}

/// The closure body of `first_less_or_equal_by`: three monotone comparator families with at most
/// one `Equal` key.
#[inline]
pub fn by_family(fam: u8, stored: i32, probe: i32) -> Ordering {
    match fam % 3 {
        0 => stored.cmp(&probe),
        1 => {
            if stored <= probe {
                Ordering::Less
            } else {
                Ordering::Greater
            }
        }
        _ => {
            if stored < probe {
                Ordering::Less
            } else {
                Ordering::Greater
            }
        }
    }
}

/// comparator closure used for XKey collections (ticks, records the stored key)
#[inline]
pub fn xkey_by(fam: u8, stored: XKey, probe: i32) -> Ordering {
    tick();
    record(&stored);
    by_family(fam, stored.k, probe)
}

// ------------------------------------------------------------------------------------------------
// key of map / set

#[derive(Clone, Copy, Debug, Default, Hash)]
pub struct MKey(pub i32);

impl Ord for MKey {
    #[inline]
    fn cmp(&self, other: &Self) -> Ordering {
        tick();
        self.0.cmp(&other.0)
    }
}

impl PartialOrd for MKey {
    #[inline]
    fn partial_cmp(&self, other: &Self) -> Option<Ordering> {
        Some(self.cmp(other))
    }
}

impl PartialEq for MKey {
    #[inline]
    fn eq(&self, other: &Self) -> bool {
        tick();
        self.0 == other.0
    }
}

impl Eq for MKey {}

#[inline]
pub fn mkey_by(fam: u8, stored: MKey, probe: i32) -> Ordering {
    tick();
    by_family(fam, stored.0, probe)
}

// ------------------------------------------------------------------------------------------------
// payload types

pub trait Payload: Clone + Default + PartialEq + std::fmt::Debug + 'static {
    const NAME: &'static str;
    fn from_serial(s: u64) -> Self;
    fn serial(&self) -> Option<u64>;
}

impl Payload for u64 {
    const NAME: &'static str = "u64";
    fn from_serial(s: u64) -> Self {
        s
    }
    fn serial(&self) -> Option<u64> {
        Some(*self)
    }
}

impl Payload for String {
    const NAME: &'static str = "string";
    fn from_serial(s: u64) -> Self {
        format!("v{}-heap-allocated-payload", s)
    }
    fn serial(&self) -> Option<u64> {
        self.strip_prefix('v')?.split('-').next()?.parse().ok()
    }
}

/// large plain-data payload (no drop glue, 32 bytes): implementations may treat big values
/// differently from small ones
#[derive(Clone, Debug, Default, PartialEq)]
pub struct Wide(pub [u64; 4]);

impl Payload for Wide {
    const NAME: &'static str = "wide";
    fn from_serial(s: u64) -> Self {
        Wide([s, !s, s.rotate_left(17), 0x5eed ^ s])
    }
    fn serial(&self) -> Option<u64> {
        Some(self.0[0])
    }
}

/// very large plain-data payload (320 bytes): beyond any size_of threshold below a cache-line multiple
#[derive(Clone, Debug, PartialEq)]
pub struct Big(pub [u64; 40]);

impl Default for Big {
    fn default() -> Self {
        Big([0; 40])
    }
}

impl Payload for Big {
    const NAME: &'static str = "big";
    fn from_serial(s: u64) -> Self {
        let mut a = [0u64; 40];
        for (i, x) in a.iter_mut().enumerate() {
            *x = s.rotate_left(i as u32) ^ (i as u64).wrapping_mul(0x9E37_79B9_7F4A_7C15);
        }
        a[0] = s;
        Big(a)
    }
    fn serial(&self) -> Option<u64> {
        Some(self.0[0])
    }
}

/// set value carrying its own key
#[derive(Clone, Debug, Default, PartialEq)]
pub struct SItem<P> {
    pub key: MKey,
    pub payload: P,
}

impl<P> KeyValue<MKey> for SItem<P> {
    #[inline]
    fn key(&self) -> &MKey {
        tick();
        &self.key
    }
}

// ------------------------------------------------------------------------------------------------
// seg value

#[derive(Clone, Copy, Debug, PartialEq, Eq)]
pub struct SegVal {
    pub id: u32,
    pub exp: i32,
}

impl ExpiredVal<i32> for SegVal {
    #[inline]
    fn expiration(&self) -> i32 {
        tick();
        self.exp
    }
}

/// small value type for the C19 allocation ladder
#[derive(Clone, Copy, Debug, PartialEq, Eq, Default)]
pub struct Tiny(pub u8);
