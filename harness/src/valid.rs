//! Validity predicates over the read-only structural snapshot (C02, C11).

use i_tree::verif::VerifSnapshot;
use i_tree::EMPTY_REF;

#[derive(Clone, Debug)]
pub struct NodeInfo {
    pub slot: u32,
    pub depth: u32,
    pub red: bool,
    pub nchild: u8,
    pub parent: u32,
}

/// The reachable part of a snapshot, in-order.
#[derive(Clone, Debug, Default)]
pub struct TreeView {
    pub n: usize,
    pub height: u32,
    pub black_height: u32,
    pub root: u32,
    pub root_red: bool,
    pub inorder: Vec<NodeInfo>,
}

impl TreeView {
    pub fn find(&self, slot: u32) -> Option<&NodeInfo> {
        self.inorder.iter().find(|n| n.slot == slot)
    }
}

/// Link-level walk: mutual parent/child consistency, no cycles, sentinel linked nowhere.
/// Returns the in-order view. Does not look at keys or colours.
pub fn walk(s: &VerifSnapshot) -> Result<TreeView, String> {
    let len = s.links.len();
    let mut view = TreeView { root: s.root, ..Default::default() };
    if s.root == EMPTY_REF {
        return Ok(view);
    }
    if s.root == 0 {
        return Err("root is the sentinel slot 0".into());
    }
    if s.root as usize >= len {
        return Err(format!("root {} out of arena (len {})", s.root, len));
    }
    if s.links[s.root as usize][0] != EMPTY_REF {
        return Err(format!("root {} has parent link {}", s.root, s.links[s.root as usize][0]));
    }
    view.root_red = s.red[s.root as usize];
    let mut visited = vec![false; len];
    // iterative in-order with explicit stack: (slot, depth, state)
    let mut stack: Vec<(u32, u32, u8)> = vec![(s.root, 1, 0)];
    visited[s.root as usize] = true;
    while let Some(top) = stack.last_mut() {
        let (slot, depth, state) = *top;
        let [_, l, r] = s.links[slot as usize];
        match state {
            0 => {
                top.2 = 1;
                if l != EMPTY_REF {
                    check_child(s, slot, l, "left", &mut visited)?;
                    stack.push((l, depth + 1, 0));
                }
            }
            1 => {
                top.2 = 2;
                let nchild = (l != EMPTY_REF) as u8 + (r != EMPTY_REF) as u8;
                view.inorder.push(NodeInfo {
                    slot,
                    depth,
                    red: s.red[slot as usize],
                    nchild,
                    parent: s.links[slot as usize][0],
                });
                if depth > view.height {
                    view.height = depth;
                }
                if r != EMPTY_REF {
                    check_child(s, slot, r, "right", &mut visited)?;
                    stack.push((r, depth + 1, 0));
                }
            }
            _ => {
                stack.pop();
            }
        }
    }
    view.n = view.inorder.len();
    Ok(view)
}

fn check_child(s: &VerifSnapshot, parent: u32, child: u32, side: &str, visited: &mut [bool]) -> Result<(), String> {
    let len = s.links.len();
    if child == 0 {
        return Err(format!("slot {} has the sentinel (slot 0) as {} child", parent, side));
    }
    if child as usize >= len {
        return Err(format!("slot {} has {} child {} outside the arena (len {})", parent, side, child, len));
    }
    if visited[child as usize] {
        return Err(format!("slot {} reached twice (cycle or shared child), via {} link of {}", child, side, parent));
    }
    visited[child as usize] = true;
    let p = s.links[child as usize][0];
    if p != parent {
        return Err(format!("slot {} is {} child of {} but its parent link is {}", child, side, parent, p));
    }
    Ok(())
}

/// Full red-black validity. `key_of(slot)` gives the sort key of a reachable slot.
/// `strict`: in-order keys must strictly increase (map/set); otherwise non-decreasing (expiring tree).
pub fn valid_rb(s: &VerifSnapshot, key_of: &dyn Fn(u32) -> i64, strict: bool) -> Result<TreeView, String> {
    let mut view = walk(s)?;
    // search order
    let mut prev: Option<i64> = None;
    for n in &view.inorder {
        let k = key_of(n.slot);
        if let Some(p) = prev {
            if (strict && k <= p) || (!strict && k < p) {
                return Err(format!("in-order keys not increasing: {} then {} (slot {})", p, k, n.slot));
            }
        }
        prev = Some(k);
    }
    // red-red and black heights (recursive over the links; depth is bounded by height which walk() measured)
    if s.root != EMPTY_REF {
        let bh = black_height(s, s.root)?;
        view.black_height = bh;
        // height <= 2*log2(n+1)+1  <=>  2^(h-1) <= (n+1)^2   (exact integers)
        let h = view.height as u128;
        let n1 = (view.n as u128) + 1;
        if h >= 1 {
            let lhs = if h - 1 >= 127 { u128::MAX } else { 1u128 << (h - 1) };
            if lhs > n1 * n1 {
                return Err(format!("height {} exceeds 2*log2(n+1)+1 for n={}", view.height, view.n));
            }
        }
    }
    Ok(view)
}

fn black_height(s: &VerifSnapshot, slot: u32) -> Result<u32, String> {
    if slot == EMPTY_REF {
        return Ok(0);
    }
    let [_, l, r] = s.links[slot as usize];
    let red = s.red[slot as usize];
    if red {
        for c in [l, r] {
            if c != EMPTY_REF && s.red[c as usize] {
                return Err(format!("red slot {} has red child {}", slot, c));
            }
        }
    }
    let bl = black_height(s, l)?;
    let br = black_height(s, r)?;
    if bl != br {
        return Err(format!("black heights differ under slot {}: left {} right {}", slot, bl, br));
    }
    Ok(bl + if red { 0 } else { 1 })
}

/// Arena accounting: {0}, reachable slots and the free list partition 0..len.
pub fn valid_arena(s: &VerifSnapshot, view: &TreeView) -> Result<(), String> {
    let len = s.links.len();
    if len == 0 {
        return Err("arena is empty (sentinel slot missing)".into());
    }
    // 0 = unseen, 1 = sentinel, 2 = tree, 3 = free
    let mut state = vec![0u8; len];
    state[0] = 1;
    for n in &view.inorder {
        let i = n.slot as usize;
        if state[i] != 0 {
            return Err(format!("slot {} in tree and also {}", n.slot, what(state[i])));
        }
        state[i] = 2;
    }
    for &u in &s.unused {
        let i = u as usize;
        if i >= len {
            return Err(format!("free list holds slot {} outside the arena (len {})", u, len));
        }
        if state[i] != 0 {
            return Err(format!("slot {} on the free list and also {}", u, what(state[i])));
        }
        state[i] = 3;
    }
    if let Some(lost) = state.iter().position(|x| *x == 0) {
        return Err(format!("slot {} is lost: neither sentinel, in the tree nor free", lost));
    }
    Ok(())
}

fn what(s: u8) -> &'static str {
    match s {
        1 => "the sentinel",
        2 => "part of the tree",
        3 => "on the free list (again)",
        _ => "unseen",
    }
}
