//! Model-directed interpreter for the ordered map and set (tree and list variants).
//!
//! Properties with oracles in here: C02 C04 C05 C08 C09 C10 C11 C12 C13 C17 C18.

use crate::case::{Case, RawOp};
use crate::instr::{mkey_by, MKey, Payload, SItem};
use crate::run::{budget_for, lib_call, CallErr, Outcome, RunCfg};
use crate::valid::{valid_arena, valid_rb, walk, TreeView};
use i_tree::map::list::MapList;
use i_tree::map::sort::MapCollection;
use i_tree::map::tree::MapTree;
use i_tree::set::list::SetList;
use i_tree::set::sort::SetCollection;
use i_tree::set::tree::SetTree;
use i_tree::verif::VerifSnapshot;
use i_tree::EMPTY_REF;
use std::collections::BTreeMap;

pub const ORD_OPS: &[&str] = &[
    "ins", "del", "get", "isempty", "clear", "hread", "hwrite", "hdel", "step", "walk", "sweep", "hsweep", "stepall", "run", "bulk",
];
pub const O_INS: u8 = 0;
pub const O_DEL: u8 = 1;
pub const O_GET: u8 = 2;
pub const O_ISEMPTY: u8 = 3;
pub const O_CLEAR: u8 = 4;
pub const O_HREAD: u8 = 5;
pub const O_HWRITE: u8 = 6;
pub const O_HDEL: u8 = 7;
pub const O_STEP: u8 = 8;
pub const O_WALK: u8 = 9;
pub const O_SWEEP: u8 = 10;
pub const O_HSWEEP: u8 = 11;
pub const O_STEPALL: u8 = 12;
/// `run start len dir`: a monotone run of insertions (ascending dir=0 / descending dir=1), the
/// insertion orders that drive the deepest recolouring and rotation chains
pub const O_RUN: u8 = 13;
/// `bulk n order`: n insertions of the keys 0..n (ascending / descending / permuted; keys already
/// present are skipped), without per-step observations, then one structural checkpoint - the way
/// structures of 10^4..10^6 entries are built (size thresholds, deep paths, large arenas)
pub const O_BULK: u8 = 14;

/// Uniform view of the four (+1) collections.
pub trait OrdColl: Sized {
    type P: Payload;
    const IS_TREE: bool;
    const IS_SET: bool;
    /// values carry a payload distinct from the key
    const HAS_PAYLOAD: bool;
    const NAME: &'static str;
    fn make(cap: usize) -> Self;
    fn is_empty(&self) -> bool;
    fn insert(&mut self, k: i32, v: Self::P);
    fn delete(&mut self, k: i32);
    fn delete_by_index(&mut self, h: u32);
    /// (key carried by the value if any, payload if any)
    fn get(&self, k: i32) -> Option<(Option<i32>, Option<Self::P>)>;
    fn at(&self, h: u32) -> (Option<i32>, Option<Self::P>);
    fn write_at(&mut self, h: u32, v: Self::P);
    fn first_index_less(&self, k: i32) -> u32;
    fn first_index_less_by(&self, fam: u8, p: i32) -> u32;
    fn index_after(&self, h: u32) -> u32;
    fn index_before(&self, h: u32) -> u32;
    fn clear(&mut self);
    fn snap(&self) -> Option<VerifSnapshot>;
    fn key_at(&self, slot: u32) -> i32;
}

impl<P: Payload> OrdColl for MapTree<MKey, P> {
    type P = P;
    const IS_TREE: bool = true;
    const IS_SET: bool = false;
    const HAS_PAYLOAD: bool = true;
    const NAME: &'static str = "MapTree";
    fn make(cap: usize) -> Self {
        MapTree::new(cap)
    }
    fn is_empty(&self) -> bool {
        MapCollection::is_empty(self)
    }
    fn insert(&mut self, k: i32, v: P) {
        MapCollection::insert(self, MKey(k), v)
    }
    fn delete(&mut self, k: i32) {
        MapCollection::delete(self, MKey(k))
    }
    fn delete_by_index(&mut self, h: u32) {
        MapCollection::delete_by_index(self, h)
    }
    fn get(&self, k: i32) -> Option<(Option<i32>, Option<P>)> {
        MapCollection::get_value(self, MKey(k)).map(|v| (None, Some(v.clone())))
    }
    fn at(&self, h: u32) -> (Option<i32>, Option<P>) {
        (None, Some(MapCollection::value_by_index(self, h).clone()))
    }
    fn write_at(&mut self, h: u32, v: P) {
        *MapCollection::value_by_index_mut(self, h) = v;
    }
    fn first_index_less(&self, k: i32) -> u32 {
        MapCollection::first_index_less(self, MKey(k))
    }
    fn first_index_less_by(&self, fam: u8, p: i32) -> u32 {
        MapCollection::first_index_less_by(self, |sk| mkey_by(fam, sk, p))
    }
    fn index_after(&self, _h: u32) -> u32 {
        unreachable!()
    }
    fn index_before(&self, _h: u32) -> u32 {
        unreachable!()
    }
    fn clear(&mut self) {
        MapCollection::clear(self)
    }
    fn snap(&self) -> Option<VerifSnapshot> {
        Some(self.verif_snapshot())
    }
    fn key_at(&self, slot: u32) -> i32 {
        self.verif_key_at(slot).0
    }
}

impl<P: Payload> OrdColl for MapList<MKey, P> {
    type P = P;
    const IS_TREE: bool = false;
    const IS_SET: bool = false;
    const HAS_PAYLOAD: bool = true;
    const NAME: &'static str = "MapList";
    fn make(cap: usize) -> Self {
        MapList::new(cap)
    }
    fn is_empty(&self) -> bool {
        MapCollection::is_empty(self)
    }
    fn insert(&mut self, k: i32, v: P) {
        MapCollection::insert(self, MKey(k), v)
    }
    fn delete(&mut self, k: i32) {
        MapCollection::delete(self, MKey(k))
    }
    fn delete_by_index(&mut self, h: u32) {
        MapCollection::delete_by_index(self, h)
    }
    fn get(&self, k: i32) -> Option<(Option<i32>, Option<P>)> {
        MapCollection::get_value(self, MKey(k)).map(|v| (None, Some(v.clone())))
    }
    fn at(&self, h: u32) -> (Option<i32>, Option<P>) {
        (None, Some(MapCollection::value_by_index(self, h).clone()))
    }
    fn write_at(&mut self, h: u32, v: P) {
        *MapCollection::value_by_index_mut(self, h) = v;
    }
    fn first_index_less(&self, k: i32) -> u32 {
        MapCollection::first_index_less(self, MKey(k))
    }
    fn first_index_less_by(&self, fam: u8, p: i32) -> u32 {
        MapCollection::first_index_less_by(self, |sk| mkey_by(fam, sk, p))
    }
    fn index_after(&self, _h: u32) -> u32 {
        unreachable!()
    }
    fn index_before(&self, _h: u32) -> u32 {
        unreachable!()
    }
    fn clear(&mut self) {
        MapCollection::clear(self)
    }
    fn snap(&self) -> Option<VerifSnapshot> {
        None
    }
    fn key_at(&self, _slot: u32) -> i32 {
        unreachable!()
    }
}

impl<P: Payload> OrdColl for SetTree<MKey, SItem<P>> {
    type P = P;
    const IS_TREE: bool = true;
    const IS_SET: bool = true;
    const HAS_PAYLOAD: bool = true;
    const NAME: &'static str = "SetTree";
    fn make(cap: usize) -> Self {
        SetTree::new(cap)
    }
    fn is_empty(&self) -> bool {
        SetCollection::is_empty(self)
    }
    fn insert(&mut self, k: i32, v: P) {
        SetCollection::insert(self, SItem { key: MKey(k), payload: v })
    }
    fn delete(&mut self, k: i32) {
        SetCollection::delete(self, &MKey(k))
    }
    fn delete_by_index(&mut self, h: u32) {
        SetCollection::delete_by_index(self, h)
    }
    fn get(&self, k: i32) -> Option<(Option<i32>, Option<P>)> {
        SetCollection::get_value(self, &MKey(k)).map(|v| (Some(v.key.0), Some(v.payload.clone())))
    }
    fn at(&self, h: u32) -> (Option<i32>, Option<P>) {
        let v = SetCollection::value_by_index(self, h);
        (Some(v.key.0), Some(v.payload.clone()))
    }
    fn write_at(&mut self, h: u32, v: P) {
        SetCollection::value_by_index_mut(self, h).payload = v;
    }
    fn first_index_less(&self, k: i32) -> u32 {
        SetCollection::first_index_less(self, &MKey(k))
    }
    fn first_index_less_by(&self, fam: u8, p: i32) -> u32 {
        SetCollection::first_index_less_by(self, |sk| mkey_by(fam, *sk, p))
    }
    fn index_after(&self, h: u32) -> u32 {
        SetCollection::index_after(self, h)
    }
    fn index_before(&self, h: u32) -> u32 {
        SetCollection::index_before(self, h)
    }
    fn clear(&mut self) {
        SetCollection::clear(self)
    }
    fn snap(&self) -> Option<VerifSnapshot> {
        Some(self.verif_snapshot())
    }
    fn key_at(&self, slot: u32) -> i32 {
        self.verif_val_at(slot).key.0
    }
}

impl<P: Payload> OrdColl for SetList<SItem<P>> {
    type P = P;
    const IS_TREE: bool = false;
    const IS_SET: bool = true;
    const HAS_PAYLOAD: bool = true;
    const NAME: &'static str = "SetList";
    fn make(cap: usize) -> Self {
        SetList::new(cap)
    }
    fn is_empty(&self) -> bool {
        SetCollection::<MKey, SItem<P>>::is_empty(self)
    }
    fn insert(&mut self, k: i32, v: P) {
        SetCollection::<MKey, SItem<P>>::insert(self, SItem { key: MKey(k), payload: v })
    }
    fn delete(&mut self, k: i32) {
        SetCollection::<MKey, SItem<P>>::delete(self, &MKey(k))
    }
    fn delete_by_index(&mut self, h: u32) {
        SetCollection::<MKey, SItem<P>>::delete_by_index(self, h)
    }
    fn get(&self, k: i32) -> Option<(Option<i32>, Option<P>)> {
        SetCollection::<MKey, SItem<P>>::get_value(self, &MKey(k)).map(|v| (Some(v.key.0), Some(v.payload.clone())))
    }
    fn at(&self, h: u32) -> (Option<i32>, Option<P>) {
        let v = SetCollection::<MKey, SItem<P>>::value_by_index(self, h);
        (Some(v.key.0), Some(v.payload.clone()))
    }
    fn write_at(&mut self, h: u32, v: P) {
        SetCollection::<MKey, SItem<P>>::value_by_index_mut(self, h).payload = v;
    }
    fn first_index_less(&self, k: i32) -> u32 {
        SetCollection::<MKey, SItem<P>>::first_index_less(self, &MKey(k))
    }
    fn first_index_less_by(&self, fam: u8, p: i32) -> u32 {
        SetCollection::<MKey, SItem<P>>::first_index_less_by(self, |sk| mkey_by(fam, *sk, p))
    }
    fn index_after(&self, h: u32) -> u32 {
        SetCollection::<MKey, SItem<P>>::index_after(self, h)
    }
    fn index_before(&self, h: u32) -> u32 {
        SetCollection::<MKey, SItem<P>>::index_before(self, h)
    }
    fn clear(&mut self) {
        SetCollection::<MKey, SItem<P>>::clear(self)
    }
    fn snap(&self) -> Option<VerifSnapshot> {
        None
    }
    fn key_at(&self, _slot: u32) -> i32 {
        unreachable!()
    }
}

/// bare integers as set values (value == key, no separate payload)
impl OrdColl for SetTree<i32, i32> {
    type P = u64;
    const IS_TREE: bool = true;
    const IS_SET: bool = true;
    const HAS_PAYLOAD: bool = false;
    const NAME: &'static str = "SetTree<i32>";
    fn make(cap: usize) -> Self {
        SetTree::new(cap)
    }
    fn is_empty(&self) -> bool {
        SetCollection::is_empty(self)
    }
    fn insert(&mut self, k: i32, _v: u64) {
        SetCollection::insert(self, k)
    }
    fn delete(&mut self, k: i32) {
        SetCollection::delete(self, &k)
    }
    fn delete_by_index(&mut self, h: u32) {
        SetCollection::delete_by_index(self, h)
    }
    fn get(&self, k: i32) -> Option<(Option<i32>, Option<u64>)> {
        SetCollection::get_value(self, &k).map(|v| (Some(*v), None))
    }
    fn at(&self, h: u32) -> (Option<i32>, Option<u64>) {
        (Some(*SetCollection::value_by_index(self, h)), None)
    }
    fn write_at(&mut self, _h: u32, _v: u64) {}
    fn first_index_less(&self, k: i32) -> u32 {
        SetCollection::first_index_less(self, &k)
    }
    fn first_index_less_by(&self, fam: u8, p: i32) -> u32 {
        SetCollection::first_index_less_by(self, |sk| {
            crate::instr::tick();
            crate::instr::by_family(fam, *sk, p)
        })
    }
    fn index_after(&self, h: u32) -> u32 {
        SetCollection::index_after(self, h)
    }
    fn index_before(&self, h: u32) -> u32 {
        SetCollection::index_before(self, h)
    }
    fn clear(&mut self) {
        SetCollection::clear(self)
    }
    fn snap(&self) -> Option<VerifSnapshot> {
        Some(self.verif_snapshot())
    }
    fn key_at(&self, slot: u32) -> i32 {
        *self.verif_val_at(slot)
    }
}

type Model = BTreeMap<i32, u64>; // key -> serial of the current value

struct OrdRun<'a, C: OrdColl> {
    rc: &'a RunCfg,
    out: Outcome,
    coll: C,
    twin: Option<C>,
    model: Model,
    u: i32,
    cap: usize,
    serial: u64,
    snap_on: bool,
    peak: usize,
    growths: u32,
    removals_since_growth: u32,
    last_len: usize,
    /// handles held since the last deletion / clear (C17): key -> handle
    held: BTreeMap<i32, u32>,
    /// prop number for plain lookups on this collection
    p_lookup: u32,
    edge_classes: u32,
    removed_2child: bool,
    removed_any: bool,
    dense: bool,
    /// take the structural snapshot even though per-step snapshots are off (checkpoints of huge cases)
    force_snap: bool,
}

enum Step {
    Continue,
    Stop,
}

macro_rules! trace {
    ($self:expr, $($arg:tt)*) => {
        if $self.rc.trace {
            $self.out.trace.push(format!($($arg)*));
        }
    };
}

pub fn run_ord<C: OrdColl>(case: &Case, rc: &RunCfg) -> Outcome {
    crate::instr::reset();
    let cap = case.get_i64("cap", 8).max(0) as usize;
    let u = case.get_i64("U", 6).clamp(1, 200_000_000) as i32;
    let snap_on = case.get_i64("snap", 1) != 0;
    let coll = C::make(cap);
    let last_len = coll.snap().map(|s| s.links.len()).unwrap_or(0);
    let p_lookup = if !C::IS_TREE {
        13
    } else if C::IS_SET {
        5
    } else {
        4
    };
    let mut r = OrdRun::<C> {
        rc,
        out: Outcome::default(),
        coll,
        twin: None,
        model: Model::new(),
        u,
        cap,
        serial: 0,
        snap_on,
        peak: 0,
        growths: 0,
        removals_since_growth: 0,
        last_len,
        held: BTreeMap::new(),
        p_lookup,
        edge_classes: 0,
        removed_2child: false,
        removed_any: false,
        dense: case.get_i64("dense", if u <= 64 { 1 } else { 0 }) != 0,
        force_snap: false,
    };
    if case.get_i64("local", 0) != 0 {
        r.out.class("local_window");
    }
    let mut last_look = 0usize;
    for (i, op) in case.ops.iter().enumerate() {
        if r.out.failure.is_some() || r.out.blocked.is_some() {
            break;
        }
        if [O_GET, O_HREAD, O_HWRITE, O_STEP, O_WALK, O_SWEEP, O_HSWEEP, O_STEPALL].contains(&op.kind) {
            if i >= last_look + 100 {
                r.out.class("sparse_observations");
            }
            last_look = i;
        }
        match r.step(i, op) {
            Step::Continue => {}
            Step::Stop => break,
        }
        r.out.ops_run += 1;
    }
    if r.out.failure.is_none() && r.out.blocked.is_none() && !r.dense && !case.ops.is_empty() {
        let n = case.ops.len();
        r.final_battery(n);
        if r.out.failure.is_none() && r.out.blocked.is_none() && !r.snap_on && rc.inject.is_none() && !rc.inject_all {
            r.checkpoint(n, false);
        }
    }
    if r.out.failure.is_none() && r.out.blocked.is_none() && rc.want_state {
        r.out.state_key = r.state_key();
    }
    r.out
}

impl<'a, C: OrdColl> OrdRun<'a, C> {
    fn next_serial(&mut self) -> u64 {
        self.serial += 1;
        self.serial
    }

    fn probe_of(&self, a: i64) -> i32 {
        (a.rem_euclid(self.u as i64 + 2) - 1) as i32
    }

    fn countdown_for(&self, i: usize) -> Option<u64> {
        match self.rc.inject {
            Some((oi, j)) if oi == i => Some(j),
            _ => {
                if self.rc.inject_all {
                    Some(0)
                } else {
                    None
                }
            }
        }
    }

    fn budget(&self) -> u64 {
        budget_for(self.model.len() + 8)
    }

    fn on_call_err(&mut self, i: usize, e: CallErr, observed_by: &[u32], what: &str) -> Step {
        match e {
            CallErr::Injected => unreachable!(),
            CallErr::Budget => {
                let msg = format!("{}: callback budget exceeded (non-terminating loop over user code?) in {}", C::NAME, what);
                let pn = if self.rc.obs(10) { 10 } else { self.rc.observe.trailing_zeros() };
                self.out.fail(pn, "callback-budget", i, msg);
            }
            CallErr::Panic(m) => {
                let msg = format!("{}: panic in {}: {}", C::NAME, what, m);
                if self.rc.obs(10) {
                    self.out.fail(10, "panic", i, msg);
                } else if let Some(pn) = observed_by.iter().find(|n| self.rc.obs(**n)) {
                    self.out.fail(*pn, "panic-in-observed-op", i, msg);
                } else {
                    // the in-contract history cannot be completed: a counterexample to any property
                    // that quantifies over all histories (and, of course, to C10)
                    let pn = self.rc.observe.trailing_zeros();
                    self.out.fail(pn, "history-aborted", i, format!("{} (the in-contract history cannot be completed, so what the property promises for it is not delivered)", msg));
                }
            }
        }
        Step::Stop
    }

    fn edge(&mut self, bit: u32, name: &'static str) {
        self.out.class(name);
        self.edge_classes |= 1 << bit;
        if self.edge_classes.count_ones() >= 3 {
            self.out.class("c10_three_edge_classes");
        }
    }

    fn pre_view(&mut self, i: usize) -> Option<(VerifSnapshot, TreeView)> {
        if !(self.snap_on || self.force_snap) || !C::IS_TREE {
            return None;
        }
        let s = self.coll.snap().unwrap();
        match walk(&s) {
            Ok(v) => Some((s, v)),
            Err(m) => {
                if self.rc.obs(2) {
                    self.out.fail(2, "links", i, format!("{}: {}", C::NAME, m));
                } else if self.rc.obs(11) {
                    self.out.fail(11, "links", i, format!("{}: {}", C::NAME, m));
                } else {
                    self.snap_on = false;
                    self.out.class("structure_unreadable");
                }
                None
            }
        }
    }

    fn post_struct(&mut self, i: usize, pre: &Option<(VerifSnapshot, TreeView)>, after_clear: bool) -> Option<(VerifSnapshot, TreeView)> {
        if !(self.snap_on || self.force_snap) || !C::IS_TREE {
            return None;
        }
        let s = self.coll.snap().unwrap();
        let coll = &self.coll;
        let key_of = |slot: u32| coll.key_at(slot) as i64;
        let view = if self.rc.obs(2) {
            match valid_rb(&s, &key_of, true) {
                Ok(v) => v,
                Err(m) => {
                    self.out.fail(2, "valid-rb", i, format!("{}: after op #{}: {}", C::NAME, i, m));
                    return None;
                }
            }
        } else {
            match walk(&s) {
                Ok(v) => v,
                Err(m) => {
                    if self.rc.obs(11) {
                        self.out.fail(11, "links", i, format!("{}: after op #{}: {}", C::NAME, i, m));
                    } else {
                        self.snap_on = false;
                        self.out.class("structure_unreadable");
                    }
                    return None;
                }
            }
        };
        if self.rc.obs(11) {
            if let Err(m) = valid_arena(&s, &view) {
                self.out.fail(11, "arena", i, format!("{}: after op #{}: {}", C::NAME, i, m));
                return None;
            }
            if after_clear && s.unused.len() + 1 != s.links.len() {
                self.out.fail(11, "clear-free-list", i, format!("{}: after clear the free list has {} of {} slots", C::NAME, s.unused.len(), s.links.len() - 1));
                return None;
            }
        }
        if view.n > self.peak {
            self.peak = view.n;
        }
        let len = s.links.len();
        if len > self.last_len {
            self.growths += 1;
            self.removals_since_growth = 0;
            self.edge(2, "arena_growth");
            if self.growths >= 2 {
                self.out.class("arena_growth_x2");
            }
        }
        self.last_len = len;
        if self.rc.obs(11) {
            let bound = 8 * (self.peak + 1) + 4 * self.cap.max(8);
            if len > bound {
                self.out.fail(11, "arena-bound", i, format!("{}: arena has {} slots with peak population {} and hint {} (bound {})", C::NAME, len, self.peak, self.cap, bound));
                return None;
            }
        }
        if view.root_red && view.n > 0 {
            self.out.class("red_root");
        }
        if view.height >= 6 {
            self.out.class("height_ge_6");
        }
        if view.height >= 33 {
            self.out.class("height_ge_33");
        }
        if let Some((_, pv)) = pre {
            if view.n < pv.n {
                self.removals_since_growth += (pv.n - view.n) as u32;
                if self.growths >= 2 && self.removals_since_growth >= 100 {
                    self.out.class("c11_nontrivial");
                }
            }
            // rotation / relink: a surviving slot changed parent
            if view.n >= pv.n {
                for n in &view.inorder {
                    if let Some(o) = pv.find(n.slot) {
                        if o.parent != n.parent {
                            self.out.class("rotation_or_relink");
                            if self.held.values().any(|h| *h == n.slot) {
                                self.out.class("rotation_around_held_entry");
                            }
                            break;
                        }
                    }
                }
            }
        }
        Some((s, view))
    }

    /// classify a removal of `key` using the pre-op view
    fn classify_removal(&mut self, pre: &Option<(VerifSnapshot, TreeView)>, key: i32) {
        if let Some((_, pv)) = pre {
            for n in &pv.inorder {
                if self.coll_key_pre(n.slot, key) {
                    self.removed_any = true;
                    if n.nchild == 2 {
                        self.removed_2child = true;
                    }
                    match (n.nchild, n.red) {
                        (2, _) => self.edge(0, "rm_two_children"),
                        (1, _) => self.out.class("rm_one_child"),
                        (0, true) => self.out.class("rm_red_leaf"),
                        (0, false) => {
                            if pv.n > 1 {
                                self.edge(1, "rm_black_leaf")
                            } else {
                                self.out.class("rm_last")
                            }
                        }
                        _ => {}
                    }
                    if n.slot != pv.root {
                        self.out.class("rm_nonroot");
                    }
                    if pv.n >= 3 {
                        self.out.class("rm_in_tree_ge_3");
                    }
                    break;
                }
            }
        }
    }

    // NOTE: called *before* the removal, so the slot still holds the key
    fn coll_key_pre(&self, slot: u32, key: i32) -> bool {
        self.coll.key_at(slot) == key
    }

    /// model predecessor (greatest key satisfying the bound)
    fn model_le(&self, p: i32) -> Option<(i32, u64)> {
        self.model.range(..=p).next_back().map(|(k, v)| (*k, *v))
    }

    fn model_lt(&self, p: i32) -> Option<(i32, u64)> {
        self.model.range(..p).next_back().map(|(k, v)| (*k, *v))
    }

    /// compare what a handle / lookup shows with the model entry (k, serial)
    fn same_entry(obs: &(Option<i32>, Option<C::P>), k: i32, serial: u64) -> bool {
        if let Some(ok) = obs.0 {
            if ok != k {
                return false;
            }
        }
        if let Some(p) = &obs.1 {
            if *p != C::P::from_serial(serial) {
                return false;
            }
        }
        true
    }

    fn fmt_obs(obs: &(Option<i32>, Option<C::P>)) -> String {
        format!("(key {:?}, payload {:?})", obs.0, obs.1)
    }

    /// probes worth looking at: the whole universe (+-1) when it is small, otherwise every stored
    /// key, both its neighbours and the ends
    fn probe_set(&self) -> Vec<i32> {
        if self.u <= 512 {
            return (-1..=self.u).collect();
        }
        let mut v: Vec<i32> = vec![-1, 0, self.u - 1, self.u];
        let n = self.model.len();
        if n <= 1500 {
            for k in self.model.keys() {
                v.extend([*k - 1, *k, *k + 1]);
            }
        } else {
            // both ends and an evenly spaced sample of the rest
            let stride = n / 1000;
            for (j, k) in self.model.keys().enumerate() {
                if j < 250 || j + 250 >= n || j % stride == 0 {
                    v.extend([*k - 1, *k, *k + 1]);
                }
            }
        }
        v.sort();
        v.dedup();
        v
    }

    /// the battery once more at the end of every case, whatever the size of the universe
    fn final_battery(&mut self, i: usize) -> bool {
        if self.rc.inject.is_some() || self.rc.inject_all {
            return true;
        }
        let was = self.dense;
        self.dense = true;
        let ok = self.dense_battery(i);
        self.dense = was;
        ok
    }

    /// "in every reachable state and for every probe / handle": after a mutating operation run the
    /// full observation battery of the observed property (small universes only)
    fn dense_battery(&mut self, i: usize) -> bool {
        if !self.dense || self.rc.inject.is_some() || self.rc.inject_all {
            return true;
        }
        let pl = self.p_lookup;
        if self.rc.obs(pl) && !self.sweep(i, pl, "sweep-after-mutation", "after a mutating operation") {
            return false;
        }
        let list = !C::IS_TREE;
        if (self.rc.obs(8) && !list) || (self.rc.obs(13) && list) {
            for p in self.probe_set() {
                for fam in [0u8, 2u8] {
                    if !self.hread(i, p, fam) {
                        return false;
                    }
                }
            }
        }
        if C::IS_SET && ((self.rc.obs(9) && !list) || (self.rc.obs(13) && list)) {
            let keys: Vec<i32> = self.model.keys().copied().collect();
            for k in keys {
                for dir in [true, false] {
                    if !self.step_from(i, k, dir) {
                        return false;
                    }
                }
            }
            if !self.walk_all(i) {
                return false;
            }
        }
        true
    }

    fn lookup_classes(&mut self) {
        if self.removed_2child {
            self.out.class("lookup_after_2child_removal");
        }
        if self.removed_any {
            self.out.class("lookup_after_removal");
        }
    }

    /// full lookup sweep: every key of the universe and one beyond each end
    fn sweep(&mut self, i: usize, pn: u32, site: &'static str, why: &str) -> bool {
        self.lookup_classes();
        if !self.model.is_empty() {
            self.out.class("get_present");
        }
        self.out.class("get_absent");
        for k in self.probe_set() {
            let coll = &self.coll;
            let (r, _, _) = lib_call(None, crate::run::INTERNAL_BUDGET, false, || coll.get(k));
            let got = match r {
                Ok(g) => g,
                Err(e) => {
                    self.on_call_err(i, e, &[pn], "get_value (sweep)");
                    return false;
                }
            };
            self.out.observations += 1;
            let exp = self.model.get(&k).copied();
            let ok = match (&got, exp) {
                (None, None) => true,
                (Some(o), Some(s)) => Self::same_entry(o, k, s),
                _ => false,
            };
            if !ok {
                self.out.fail(pn, site, i, format!("{}: {}: get_value({}) = {} but the reference has {}", C::NAME, why, k, got.as_ref().map(|o| Self::fmt_obs(o)).unwrap_or("None".into()), exp.map(|s| format!("v{}", s)).unwrap_or("None".into())));
                return false;
            }
        }
        let coll = &self.coll;
        let e = coll.is_empty();
        if e != self.model.is_empty() {
            self.out.fail(pn, site, i, format!("{}: {}: is_empty() = {} with {} keys present", C::NAME, why, e, self.model.len()));
            return false;
        }
        true
    }

    /// C17: every held handle still designates its entry
    fn check_held(&mut self, i: usize) -> bool {
        if !C::IS_TREE || !self.rc.obs(17) {
            return true;
        }
        let held: Vec<(i32, u32)> = self.held.iter().map(|(k, h)| (*k, *h)).collect();
        for (k, h) in held {
            let Some(serial) = self.model.get(&k).copied() else { continue };
            let coll = &self.coll;
            let (r, _, _) = lib_call(None, crate::run::INTERNAL_BUDGET, false, || (coll.at(h), coll.first_index_less(k)));
            let (obs, h2) = match r {
                Ok(x) => x,
                Err(e) => {
                    self.on_call_err(i, e, &[17], "value_by_index / first_index_less (held handle)");
                    return false;
                }
            };
            self.out.observations += 1;
            if !Self::same_entry(&obs, k, serial) {
                self.out.fail(17, "held-handle-value", i, format!("{}: handle {} taken for key {} (value v{}) before op #{} now shows {}", C::NAME, h, k, serial, i, Self::fmt_obs(&obs)));
                return false;
            }
            if h2 != h {
                self.out.fail(17, "held-handle-moved", i, format!("{}: handle for key {} was {} before op #{}, first_index_less({}) now returns {}", C::NAME, k, h, i, k, h2));
                return false;
            }
        }
        if self.held.len() >= 2 {
            self.out.class("held_ge_2_across_insert");
        }
        true
    }

    fn reacquire_held(&mut self) {
        self.held.clear();
        if !C::IS_TREE || !self.rc.obs(17) {
            return;
        }
        // huge structures: both ends and an evenly spaced sample
        let n = self.model.len();
        let stride = (n / 2000).max(1);
        let keys: Vec<i32> = self.model.keys().copied().enumerate().filter(|(j, _)| n <= 4000 || *j < 100 || *j + 100 >= n || *j % stride == 0).map(|(_, k)| k).collect();
        for k in keys {
            let coll = &self.coll;
            let (r, _, _) = lib_call(None, crate::run::INTERNAL_BUDGET, false, || coll.first_index_less(k));
            if let Ok(h) = r {
                if h != EMPTY_REF {
                    self.held.insert(k, h);
                }
            }
        }
    }

    fn twin_compare_get(&mut self, i: usize, k: i32, got: &Option<(Option<i32>, Option<C::P>)>) -> bool {
        if let Some(tw) = self.twin.as_ref() {
            let g2 = tw.get(k);
            if self.rc.obs(12) {
                self.out.observations += 1;
                self.out.twin_observation();
                if g2 != *got {
                    self.out.fail(12, "twin-get", i, format!("{}: after clear, get_value({}) = {:?} but a fresh instance driven by the same suffix gives {:?}", C::NAME, k, got, g2));
                    return false;
                }
            }
        }
        true
    }

    fn step(&mut self, i: usize, op: &RawOp) -> Step {
        if self.rc.progress {
            let pl = self.p_lookup;
            let list = !C::IS_TREE;
            let observed = match op.kind {
                O_GET | O_ISEMPTY | O_SWEEP => self.rc.obs(pl),
                O_HREAD | O_HWRITE | O_HDEL | O_HSWEEP => (self.rc.obs(8) && !list) || (self.rc.obs(13) && list),
                O_STEP | O_WALK | O_STEPALL => (self.rc.obs(9) && !list) || (self.rc.obs(13) && list),
                O_CLEAR => self.rc.obs(12),
                _ => false,
            } || self.rc.obs(10);
            self.rc.progress_line(i, ORD_OPS.get(op.kind as usize).copied().unwrap_or("?"), observed);
        }
        match op.kind {
            O_INS => self.op_insert(i, op),
            O_DEL => self.op_delete(i, op),
            O_GET => self.op_get(i, op),
            O_ISEMPTY => self.op_isempty(i),
            O_CLEAR => self.op_clear(i),
            O_HREAD => {
                let p = self.probe_of(op.args[0]);
                let fam = op.args[1].rem_euclid(3) as u8;
                self.out.callbacks.push(0);
                if self.hread(i, p, fam) {
                    Step::Continue
                } else {
                    Step::Stop
                }
            }
            O_HWRITE => self.op_hwrite(i, op),
            O_HDEL => self.op_hdel(i, op),
            O_STEP => {
                self.out.callbacks.push(0);
                if !C::IS_SET || self.model.is_empty() {
                    self.out.degraded += 1;
                    return Step::Continue;
                }
                let k = self.present_key(op.args[0]);
                let dir = op.args[1].rem_euclid(2) == 0;
                if self.step_from(i, k, dir) {
                    Step::Continue
                } else {
                    Step::Stop
                }
            }
            O_WALK => {
                self.out.callbacks.push(0);
                if !C::IS_SET {
                    self.out.degraded += 1;
                    return Step::Continue;
                }
                if self.walk_all(i) {
                    Step::Continue
                } else {
                    Step::Stop
                }
            }
            O_SWEEP => {
                self.out.callbacks.push(0);
                let pn = self.p_lookup;
                if !self.rc.obs(pn) {
                    return Step::Continue;
                }
                if self.sweep(i, pn, "sweep", "lookup sweep") {
                    Step::Continue
                } else {
                    Step::Stop
                }
            }
            O_HSWEEP => {
                self.out.callbacks.push(0);
                for p in -1..=self.u.min(64) {
                    for fam in 0..3u8 {
                        if !self.hread(i, p, fam) {
                            return Step::Stop;
                        }
                    }
                }
                Step::Continue
            }
            O_BULK => self.op_bulk(i, op),
            O_RUN => {
                let len = op.args[1].rem_euclid(200).max(1);
                let desc = op.args[2].rem_euclid(2) == 1;
                let start = op.args[0].rem_euclid(self.u as i64);
                for j in 0..len {
                    let k = if desc { start - j } else { start + j };
                    if k < 0 || k >= self.u as i64 {
                        break;
                    }
                    if self.model.contains_key(&(k as i32)) {
                        continue;
                    }
                    match self.op_insert(i, &RawOp::new(O_INS, &[k])) {
                        Step::Continue => {
                            self.out.callbacks.pop();
                        }
                        Step::Stop => return Step::Stop,
                    }
                }
                self.out.callbacks.push(0);
                self.out.class(if desc { "run_descending" } else { "run_ascending" });
                Step::Continue
            }
            O_STEPALL => {
                self.out.callbacks.push(0);
                if !C::IS_SET {
                    return Step::Continue;
                }
                let keys: Vec<i32> = self.model.keys().copied().collect();
                for k in keys {
                    for dir in [true, false] {
                        if !self.step_from(i, k, dir) {
                            return Step::Stop;
                        }
                    }
                }
                Step::Continue
            }
            _ => {
                self.out.degraded += 1;
                self.out.callbacks.push(0);
                Step::Continue
            }
        }
    }

    fn present_key(&self, a: i64) -> i32 {
        let n = self.model.len() as i64;
        let idx = a.rem_euclid(n.max(1)) as usize;
        *self.model.keys().nth(idx).unwrap_or(&0)
    }

    fn op_insert(&mut self, i: usize, op: &RawOp) -> Step {
        let k0 = op.args[0].rem_euclid(self.u as i64) as i32;
        let mut k = k0;
        let mut found = false;
        for _ in 0..self.u.min(4096) {
            if !self.model.contains_key(&k) {
                found = true;
                break;
            }
            k = (k + 1) % self.u;
        }
        if !found {
            self.out.degraded += 1;
            self.out.callbacks.push(0);
            trace!(self, "#{} insert: universe full (degraded)", i);
            return Step::Continue;
        }
        let serial = self.next_serial();
        trace!(self, "#{} insert key={} value=v{}", i, k, serial);
        let pre = self.pre_view(i);
        if self.out.failure.is_some() || self.out.blocked.is_some() {
            return Step::Stop;
        }
        let budget = self.budget();
        let mut countdown = self.countdown_for(i);
        let mut total = 0;
        loop {
            let coll = &mut self.coll;
            let v = C::P::from_serial(serial);
            let (r, calls, _) = lib_call(countdown, budget, false, || coll.insert(k, v));
            total = total.max(calls);
            match r {
                Ok(()) => {
                    self.model.insert(k, serial);
                    break;
                }
                Err(CallErr::Injected) => {
                    let mut after = self.model.clone();
                    after.insert(k, serial);
                    match self.after_injection(i, Some(after), "insert", countdown.unwrap_or(0)) {
                        None => return Step::Stop,
                        Some(true) => {
                            self.model.insert(k, serial);
                            break;
                        }
                        Some(false) => {
                            if self.rc.inject_all {
                                countdown = countdown.map(|c| c + 1);
                                continue;
                            }
                            self.out.callbacks.push(total);
                            return Step::Continue;
                        }
                    }
                }
                Err(e) => return self.on_call_err(i, e, &[], "insert"),
            }
        }
        self.out.callbacks.push(total);
        if let Some(tw) = self.twin.as_mut() {
            tw.insert(k, C::P::from_serial(serial));
        }
        let post = self.post_struct(i, &pre, false);
        if self.out.failure.is_some() || self.out.blocked.is_some() {
            return Step::Stop;
        }
        let _ = post;
        // C17: all previously held handles must have survived this insertion
        if !self.check_held(i) {
            return Step::Stop;
        }
        if C::IS_TREE && self.rc.obs(17) {
            let coll = &self.coll;
            let (r, _, _) = lib_call(None, crate::run::INTERNAL_BUDGET, false, || coll.first_index_less(k));
            if let Ok(h) = r {
                if h != EMPTY_REF {
                    self.held.insert(k, h);
                }
            }
        }
        if !self.dense_battery(i) {
            return Step::Stop;
        }
        Step::Continue
    }

    /// After an injected panic: structure valid, contents == before (self.model) or `after`.
    fn after_injection(&mut self, i: usize, after: Option<Model>, what: &str, j: u64) -> Option<bool> {
        self.out.injections += 1;
        if self.rc.inject_all {
            self.out.class("injection_delivered_compound");
        }
        if j >= 2 {
            self.out.class("inject_deep");
        }
        if C::IS_TREE {
            let s = self.coll.snap().unwrap();
            let coll = &self.coll;
            let key_of = |slot: u32| coll.key_at(slot) as i64;
            match valid_rb(&s, &key_of, true) {
                Ok(view) => {
                    if let Err(m) = valid_arena(&s, &view) {
                        self.out.fail(18, "arena-after-panic", i, format!("{}: after a panic injected into {} (callback #{}): {}", C::NAME, what, j, m));
                        return None;
                    }
                }
                Err(m) => {
                    self.out.fail(18, "structure-after-panic", i, format!("{}: after a panic injected into {} (callback #{}): {}", C::NAME, what, j, m));
                    return None;
                }
            }
        }
        // contents: before?
        let saved_obs = self.rc.observe;
        let _ = saved_obs;
        let before_ok = self.quiet_sweep(&self.model.clone());
        if before_ok.is_ok() {
            return Some(false);
        }
        if let Some(a) = after {
            if self.quiet_sweep(&a).is_ok() {
                return Some(true);
            }
        }
        self.out.fail(18, "torn-after-panic", i, format!("{}: after a panic injected into {} (callback #{}) the contents match neither the state before nor after the operation: {}", C::NAME, what, j, before_ok.unwrap_err()));
        None
    }

    fn quiet_sweep(&self, model: &Model) -> Result<(), String> {
        let umax = self.u.min(512);
        for k in -1..=umax {
            let coll = &self.coll;
            let (r, _, _) = lib_call(None, crate::run::INTERNAL_BUDGET, false, || coll.get(k));
            let got = r.map_err(|e| format!("get_value({}) failed: {:?}", k, e))?;
            let exp = model.get(&k).copied();
            let ok = match (&got, exp) {
                (None, None) => true,
                (Some(o), Some(s)) => Self::same_entry(o, k, s),
                _ => false,
            };
            if !ok {
                return Err(format!("get_value({}) = {:?}, reference {:?}", k, got, exp));
            }
            // handle-based view must agree as well
            let (r, _, _) = lib_call(None, crate::run::INTERNAL_BUDGET, false, || {
                let h = coll.first_index_less(k);
                if h == EMPTY_REF {
                    None
                } else {
                    Some(coll.at(h))
                }
            });
            let got = r.map_err(|e| format!("first_index_less({}) failed: {:?}", k, e))?;
            let exp = model.iter().rev().find(|(mk, _)| **mk <= k).map(|(a, b)| (*a, *b));
            let ok = match (&got, exp) {
                (None, None) => true,
                (Some(o), Some((mk, s))) => Self::same_entry(o, mk, s),
                _ => false,
            };
            if !ok {
                return Err(format!("first_index_less({}) shows {:?}, reference {:?}", k, got, exp));
            }
        }
        if self.coll.is_empty() != model.is_empty() {
            return Err(format!("is_empty() = {} with {} keys in the reference", self.coll.is_empty(), model.len()));
        }
        Ok(())
    }

    fn op_delete(&mut self, i: usize, op: &RawOp) -> Step {
        let want_present = op.args[1].rem_euclid(4) != 0; // 3 of 4 deletes hit a present key
        let k = if want_present && !self.model.is_empty() {
            // next present key at or after the selector, cyclically
            let k0 = op.args[0].rem_euclid(self.u as i64) as i32;
            match self.model.range(k0..).next() {
                Some((k, _)) => *k,
                None => *self.model.keys().next().unwrap(),
            }
        } else {
            // an absent key (possibly outside the universe by one)
            let mut k = self.probe_of(op.args[0]);
            let mut n = 0;
            while self.model.contains_key(&k) && n <= self.u + 2 {
                k += 1;
                if k > self.u {
                    k = -1;
                }
                n += 1;
            }
            k
        };
        let present = self.model.contains_key(&k);
        trace!(self, "#{} delete key={} ({})", i, k, if present { "present" } else { "absent" });
        let pre = self.pre_view(i);
        if self.out.failure.is_some() || self.out.blocked.is_some() {
            return Step::Stop;
        }
        if present {
            self.removed_any = true;
            self.classify_removal(&pre, k);
        } else {
            self.out.class("delete_absent");
        }
        let budget = self.budget();
        let mut countdown = self.countdown_for(i);
        let mut total = 0;
        loop {
            let coll = &mut self.coll;
            let (r, calls, _) = lib_call(countdown, budget, false, || coll.delete(k));
            total = total.max(calls);
            match r {
                Ok(()) => {
                    self.model.remove(&k);
                    break;
                }
                Err(CallErr::Injected) => {
                    let mut after = self.model.clone();
                    after.remove(&k);
                    match self.after_injection(i, Some(after), "delete", countdown.unwrap_or(0)) {
                        None => return Step::Stop,
                        Some(true) if present => {
                            self.model.remove(&k);
                            break;
                        }
                        Some(_) => {
                            if self.rc.inject_all {
                                countdown = countdown.map(|c| c + 1);
                                continue;
                            }
                            self.out.callbacks.push(total);
                            self.reacquire_held();
                            return Step::Continue;
                        }
                    }
                }
                Err(e) => return self.on_call_err(i, e, &[], "delete"),
            }
        }
        self.out.callbacks.push(total);
        if let Some(tw) = self.twin.as_mut() {
            tw.delete(k);
        }
        self.post_struct(i, &pre, false);
        if self.out.failure.is_some() || self.out.blocked.is_some() {
            return Step::Stop;
        }
        let pn = self.p_lookup;
        if self.rc.obs(pn) && !present {
            // deleting an absent key changes nothing
            if !self.sweep(i, pn, "delete-absent-changed-something", "after deleting an absent key") {
                return Step::Stop;
            }
        }
        self.reacquire_held();
        if !self.dense_battery(i) {
            return Step::Stop;
        }
        Step::Continue
    }

    fn op_get(&mut self, i: usize, op: &RawOp) -> Step {
        let k = self.probe_of(op.args[0]);
        let coll = &self.coll;
        let budget = self.budget();
        let countdown = match self.rc.inject {
            Some((oi, j)) if oi == i => Some(j),
            _ => None,
        };
        let (r, calls, _) = lib_call(countdown, budget, false, || coll.get(k));
        self.out.callbacks.push(calls);
        let pn = self.p_lookup;
        let got = match r {
            Ok(g) => g,
            Err(CallErr::Injected) => {
                return match self.after_injection(i, None, "get_value", countdown.unwrap_or(0)) {
                    None => Step::Stop,
                    Some(_) => Step::Continue,
                };
            }
            Err(e) => return self.on_call_err(i, e, &[pn], "get_value"),
        };
        let exp = self.model.get(&k).copied();
        trace!(self, "#{} get_value({}) -> {} (model {:?})", i, k, got.as_ref().map(|o| Self::fmt_obs(o)).unwrap_or("None".into()), exp);
        if exp.is_some() {
            self.out.class("get_present");
        } else {
            self.out.class("get_absent");
        }
        self.lookup_classes();
        if self.rc.obs(pn) {
            self.out.observations += 1;
            let ok = match (&got, exp) {
                (None, None) => true,
                (Some(o), Some(s)) => Self::same_entry(o, k, s),
                _ => false,
            };
            if !ok {
                self.out.fail(pn, "get_value", i, format!("{}: get_value({}) = {} but the reference has {}", C::NAME, k, got.as_ref().map(|o| Self::fmt_obs(o)).unwrap_or("None".into()), exp.map(|s| format!("v{}", s)).unwrap_or("None".into())));
                return Step::Stop;
            }
        }
        if !self.twin_compare_get(i, k, &got) {
            return Step::Stop;
        }
        Step::Continue
    }

    fn op_isempty(&mut self, i: usize) -> Step {
        self.out.callbacks.push(0);
        let coll = &self.coll;
        let (r, _, _) = lib_call(None, crate::run::INTERNAL_BUDGET, false, || coll.is_empty());
        let pn = self.p_lookup;
        let got = match r {
            Ok(g) => g,
            Err(e) => return self.on_call_err(i, e, &[pn], "is_empty"),
        };
        trace!(self, "#{} is_empty() -> {}", i, got);
        if self.rc.obs(pn) {
            self.out.observations += 1;
            if got != self.model.is_empty() {
                self.out.fail(pn, "is_empty", i, format!("{}: is_empty() = {} with {} keys present", C::NAME, got, self.model.len()));
                return Step::Stop;
            }
        }
        if let Some(tw) = self.twin.as_ref() {
            if self.rc.obs(12) {
                self.out.observations += 1;
                if tw.is_empty() != got {
                    self.out.fail(12, "twin-is-empty", i, format!("{}: after clear, is_empty() = {} but a fresh instance gives {}", C::NAME, got, tw.is_empty()));
                    return Step::Stop;
                }
            }
        }
        Step::Continue
    }

    fn op_clear(&mut self, i: usize) -> Step {
        self.out.callbacks.push(0);
        let pre = self.pre_view(i);
        if self.out.failure.is_some() || self.out.blocked.is_some() {
            return Step::Stop;
        }
        if self.model.len() >= 3 {
            self.out.class("clear_ge_3_stored");
        }
        if self.model.is_empty() {
            self.out.class("clear_empty");
        }
        if self.growths > 0 {
            self.out.class("clear_after_growth");
        }
        trace!(self, "#{} clear()", i);
        let coll = &mut self.coll;
        let (r, _, _) = lib_call(None, crate::run::INTERNAL_BUDGET, false, || coll.clear());
        if let Err(e) = r {
            return self.on_call_err(i, e, &[12], "clear");
        }
        self.model.clear();
        self.held.clear();
        if !pre.as_ref().map(|(_, v)| v.n == 0).unwrap_or(true) {
            self.edge(7, "clear_nonempty");
        }
        let pn = self.p_lookup;
        if self.rc.obs(pn) {
            self.out.observations += 1;
            if !self.coll.is_empty() {
                self.out.fail(pn, "not-empty-after-clear", i, format!("{}: is_empty() is false right after clear()", C::NAME));
                return Step::Stop;
            }
        }
        if self.rc.obs(12) {
            self.out.observations += 1;
            if !self.coll.is_empty() {
                self.out.fail(12, "not-empty-after-clear", i, format!("{}: is_empty() is false right after clear()", C::NAME));
                return Step::Stop;
            }
            self.twin = Some(C::make(self.cap));
            self.out.class("twin_started");
        }
        if self.snap_on {
            self.post_struct(i, &pre, true);
        } else {
            self.checkpoint(i, true);
        }
        if self.out.failure.is_some() || self.out.blocked.is_some() {
            return Step::Stop;
        }
        if !self.dense_battery(i) {
            return Step::Stop;
        }
        Step::Continue
    }

    /// structural validity once, in cases that run without per-step snapshots
    fn checkpoint(&mut self, i: usize, after_clear: bool) {
        if !C::IS_TREE || self.rc.inject.is_some() || self.rc.inject_all {
            return;
        }
        self.force_snap = true;
        let none = None;
        self.post_struct(i, &none, after_clear);
        self.force_snap = false;
        self.out.class("checkpoint");
    }

    fn op_bulk(&mut self, i: usize, op: &RawOp) -> Step {
        let n = op.args[0].rem_euclid(2_000_001);
        let order = op.args[1].rem_euclid(3);
        // keys base, base+stride, ..., base+(n-1)*stride
        let base = op.args[2].rem_euclid(100_000_000);
        let stride = op.args[3].rem_euclid(10_001).max(1);
        let top = base + n * stride;
        if top >= i32::MAX as i64 {
            self.out.degraded += 1;
            self.out.callbacks.push(0);
            return Step::Continue;
        }
        if (self.u as i64) < top {
            self.u = top as i32;
        }
        trace!(self, "#{} bulk insert of the absent keys among {} + j*{} (j < {}) in {} order", i, base, stride, n, ["ascending", "descending", "permuted"][order as usize]);
        let mut step = ((n as f64) * 0.618) as i64 | 1;
        while n > 1 && gcd(step, n) != 1 {
            step += 2;
        }
        let hold = C::IS_TREE && self.rc.obs(17);
        for j in 0..n {
            let k = (base
                + stride
                    * match order {
                        0 => j,
                        1 => n - 1 - j,
                        _ => (j * step) % n,
                    }) as i32;
            if self.model.contains_key(&k) {
                continue;
            }
            let serial = self.next_serial();
            let coll = &mut self.coll;
            let v = C::P::from_serial(serial);
            let (r, _, _) = lib_call(None, crate::run::INTERNAL_BUDGET, false, || coll.insert(k, v));
            if let Err(e) = r {
                return self.on_call_err(i, e, &[], "insert (bulk)");
            }
            self.model.insert(k, serial);
            if let Some(tw) = self.twin.as_mut() {
                tw.insert(k, C::P::from_serial(serial));
            }
            if hold {
                // C17: a handle for every inserted entry, all verified once the bulk is through
                let coll = &self.coll;
                let (r, _, _) = lib_call(None, crate::run::INTERNAL_BUDGET, false, || coll.first_index_less(k));
                match r {
                    Ok(h) if h != EMPTY_REF => {
                        self.held.insert(k, h);
                    }
                    // no handle to hold: that is C08's business, not C17's
                    Ok(_) => {}
                    Err(e) => return self.on_call_err(i, e, &[17], "first_index_less (bulk)"),
                }
            }
        }
        self.out.callbacks.push(0);
        self.out.class("bulk");
        if self.model.len() >= 4096 {
            self.out.class("stored_ge_4096");
        }
        if self.model.len() >= 65536 {
            self.out.class("stored_ge_65536");
        }
        if self.model.len() >= 196_608 {
            self.out.class("stored_ge_196608");
        }
        if !self.check_held(i) {
            return Step::Stop;
        }
        if self.held.len() > 4000 {
            // every handle was just verified; keep an evenly spaced sample for the operations that follow
            let stride = self.held.len() / 2000;
            let mut j = 0usize;
            self.held.retain(|_, _| {
                j += 1;
                j % stride == 0
            });
        }
        self.checkpoint(i, false);
        if self.out.failure.is_some() || self.out.blocked.is_some() {
            return Step::Stop;
        }
        Step::Continue
    }

    /// C08 read: handle by key and by comparator agree, EMPTY iff no key <= probe, dereference ok.
    fn hread(&mut self, i: usize, p: i32, fam: u8) -> bool {
        let coll = &self.coll;
        let budget = self.budget();
        // family 2 is "strictly below": its key-based counterpart is probe-1 … but only the
        // families with "<= probe" semantics are comparable with first_index_less(probe)
        let (r, _, _) = lib_call(None, budget, false, || (coll.first_index_less(p), coll.first_index_less_by(fam, p)));
        let pn = if C::IS_TREE { 8 } else { 13 };
        let (h, hb) = match r {
            Ok(x) => x,
            Err(e) => {
                self.on_call_err(i, e, &[pn], "first_index_less / first_index_less_by");
                return false;
            }
        };
        let exp_le = self.model_le(p);
        let exp_by = if fam % 3 == 2 { self.model_lt(p) } else { exp_le };
        trace!(self, "#{} first_index_less({}) -> {}, first_index_less_by(family {}, {}) -> {} (model {:?} / {:?})", i, p, fmt_h(h), fam, p, fmt_h(hb), exp_le, exp_by);
        match exp_le {
            None => self.out.class("hprobe_below_min"),
            Some((k, _)) if k == p => self.out.class("hprobe_equal"),
            Some((k, _)) => {
                if self.model.keys().next_back() == Some(&k) {
                    self.out.class("hprobe_above_max")
                } else {
                    self.out.class("hprobe_gap")
                }
            }
        }
        if !self.rc.obs(pn) {
            return true;
        }
        for (name, handle, exp) in [("first_index_less", h, exp_le), ("first_index_less_by", hb, exp_by)] {
            self.out.observations += 1;
            match exp {
                None => {
                    if handle != EMPTY_REF {
                        self.out.fail(pn, "handle-not-empty", i, format!("{}: {}({}) returned handle {} although no stored key satisfies the bound", C::NAME, name, p, handle));
                        return false;
                    }
                }
                Some((k, s)) => {
                    if handle == EMPTY_REF {
                        self.out.fail(pn, "handle-empty", i, format!("{}: {}({}) returned the empty sentinel although key {} satisfies the bound", C::NAME, name, p, k));
                        return false;
                    }
                    let coll = &self.coll;
                    let (r, _, _) = lib_call(None, budget, false, || coll.at(handle));
                    let obs = match r {
                        Ok(o) => o,
                        Err(e) => {
                            self.on_call_err(i, e, &[pn], "value_by_index");
                            return false;
                        }
                    };
                    if !Self::same_entry(&obs, k, s) {
                        self.out.fail(pn, "handle-wrong-entry", i, format!("{}: {}({}) returned handle {} which shows {} but the predecessor is key {} value v{}", C::NAME, name, p, handle, Self::fmt_obs(&obs), k, s));
                        return false;
                    }
                }
            }
        }
        if fam % 3 != 2 && h != hb {
            self.out.fail(pn, "handle-forms-disagree", i, format!("{}: first_index_less({}) = {} but first_index_less_by(<= {}) = {}", C::NAME, p, fmt_h(h), p, fmt_h(hb)));
            return false;
        }
        true
    }

    fn op_hwrite(&mut self, i: usize, op: &RawOp) -> Step {
        self.out.callbacks.push(0);
        let p = self.probe_of(op.args[0]);
        if !C::HAS_PAYLOAD {
            self.out.degraded += 1;
            return Step::Continue;
        }
        let Some((k, _old)) = self.model_le(p) else {
            // nothing to write through; still a read check
            return if self.hread(i, p, 0) { Step::Continue } else { Step::Stop };
        };
        let pn = if C::IS_TREE { 8 } else { 13 };
        let pre = self.pre_view(i);
        let serial = self.next_serial();
        let coll = &mut self.coll;
        let budget = budget_for(self.model.len() + 8);
        let (r, _, _) = lib_call(None, budget, false, || {
            let h = coll.first_index_less(p);
            if h != EMPTY_REF {
                coll.write_at(h, C::P::from_serial(serial));
            }
            h
        });
        let h = match r {
            Ok(h) => h,
            Err(e) => return self.on_call_err(i, e, &[pn], "first_index_less + value_by_index_mut"),
        };
        trace!(self, "#{} write v{} through first_index_less({}) = {} (model: key {})", i, serial, p, fmt_h(h), k);
        if h == EMPTY_REF {
            if self.rc.obs(pn) {
                self.out.fail(pn, "handle-empty", i, format!("{}: first_index_less({}) returned the empty sentinel although key {} <= probe is stored", C::NAME, p, k));
                return Step::Stop;
            }
            return Step::Continue;
        }
        self.model.insert(k, serial);
        if let Some(tw) = self.twin.as_mut() {
            let h2 = tw.first_index_less(p);
            if h2 != EMPTY_REF {
                tw.write_at(h2, C::P::from_serial(serial));
            }
        }
        if let Some((_, pv)) = &pre {
            if pv.n >= 3 && h != pv.root {
                self.out.class("hwrite_nonroot_ge_3");
            }
        }
        if self.rc.obs(pn) && !self.sweep(i, pn, "write-through-handle", "after writing through a handle") {
            return Step::Stop;
        }
        if !self.dense_battery(i) {
            return Step::Stop;
        }
        Step::Continue
    }

    fn op_hdel(&mut self, i: usize, op: &RawOp) -> Step {
        self.out.callbacks.push(0);
        let p = self.probe_of(op.args[0]);
        let Some((k, _)) = self.model_le(p) else {
            return if self.hread(i, p, 0) { Step::Continue } else { Step::Stop };
        };
        let pn = if C::IS_TREE { 8 } else { 13 };
        let pre = self.pre_view(i);
        if self.out.failure.is_some() || self.out.blocked.is_some() {
            return Step::Stop;
        }
        self.classify_removal(&pre, k);
        let budget = self.budget();
        let coll = &mut self.coll;
        let (r, _, _) = lib_call(None, budget, false, || {
            let h = coll.first_index_less(p);
            if h != EMPTY_REF {
                coll.delete_by_index(h);
            }
            h
        });
        let h = match r {
            Ok(h) => h,
            Err(e) => return self.on_call_err(i, e, &[pn], "first_index_less + delete_by_index"),
        };
        trace!(self, "#{} delete_by_index(first_index_less({}) = {}) (model: key {})", i, p, fmt_h(h), k);
        if h == EMPTY_REF {
            if self.rc.obs(pn) {
                self.out.fail(pn, "handle-empty", i, format!("{}: first_index_less({}) returned the empty sentinel although key {} <= probe is stored", C::NAME, p, k));
                return Step::Stop;
            }
            return Step::Continue;
        }
        self.edge(5, "handle_delete");
        self.model.remove(&k);
        if let Some(tw) = self.twin.as_mut() {
            let h2 = tw.first_index_less(p);
            if h2 != EMPTY_REF {
                tw.delete_by_index(h2);
            }
        }
        if let Some((_, pv)) = &pre {
            if pv.n >= 3 && h != pv.root {
                self.out.class("hdel_nonroot_ge_3");
            }
        }
        self.post_struct(i, &pre, false);
        if self.out.failure.is_some() || self.out.blocked.is_some() {
            return Step::Stop;
        }
        if self.rc.obs(pn) && !self.sweep(i, pn, "delete-through-handle", "after deleting through a handle") {
            return Step::Stop;
        }
        self.reacquire_held();
        if !self.dense_battery(i) {
            return Step::Stop;
        }
        Step::Continue
    }

    /// C09 / C13: one neighbour step from the entry with key k
    fn step_from(&mut self, i: usize, k: i32, forward: bool) -> bool {
        let pn = if C::IS_TREE { 9 } else { 13 };
        let budget = self.budget();
        let expected: Option<(i32, u64)> = if forward {
            self.model.range(k + 1..).next().map(|(a, b)| (*a, *b))
        } else {
            self.model.range(..k).next_back().map(|(a, b)| (*a, *b))
        };
        if expected.is_none() {
            self.edge(3, "step_at_end");
            let root_is_extreme = if let Some(s) = self.coll.snap() {
                s.root != EMPTY_REF && self.coll.key_at(s.root) == k
            } else {
                false
            };
            if C::IS_TREE {
                if root_is_extreme {
                    self.out.class("step_at_end_root");
                } else {
                    self.out.class("step_at_end_nonroot");
                }
            }
            if self.model.len() == 1 {
                self.out.class("step_single_entry");
            }
        } else {
            self.out.class("step_inner");
        }
        let coll = &self.coll;
        let (r, _, _) = lib_call(None, budget, false, || {
            let h = coll.first_index_less(k);
            let n = if forward { coll.index_after(h) } else { coll.index_before(h) };
            let obs = if n != EMPTY_REF && expected.is_some() { Some(coll.at(n)) } else { None };
            (h, n, obs)
        });
        let name = if forward { "index_after" } else { "index_before" };
        let (h, n, obs) = match r {
            Ok(x) => x,
            Err(e) => {
                self.on_call_err(i, e, &[pn], name);
                return false;
            }
        };
        trace!(self, "#{} {}(handle of key {} = {}) -> {} (model {:?})", i, name, k, fmt_h(h), fmt_h(n), expected);
        if !self.rc.obs(pn) {
            return true;
        }
        self.out.observations += 1;
        match expected {
            None => {
                if n != EMPTY_REF {
                    self.out.fail(pn, "step-past-end", i, format!("{}: {} from the {} entry (key {}) returned {} instead of the empty sentinel", C::NAME, name, if forward { "largest" } else { "smallest" }, k, n));
                    return false;
                }
            }
            Some((ek, es)) => {
                if n == EMPTY_REF {
                    self.out.fail(pn, "step-empty", i, format!("{}: {} from key {} returned the empty sentinel but key {} follows", C::NAME, name, k, ek));
                    return false;
                }
                let o = obs.unwrap();
                if !Self::same_entry(&o, ek, es) {
                    self.out.fail(pn, "step-wrong-entry", i, format!("{}: {} from key {} leads to {} but the neighbour is key {} value v{}", C::NAME, name, k, Self::fmt_obs(&o), ek, es));
                    return false;
                }
            }
        }
        true
    }

    /// C09: walking from the smallest by successor steps enumerates everything once and terminates
    fn walk_all(&mut self, i: usize) -> bool {
        let pn = if C::IS_TREE { 9 } else { 13 };
        if self.model.is_empty() {
            return true;
        }
        let n = self.model.len();
        let keys: Vec<(i32, u64)> = self.model.iter().map(|(a, b)| (*a, *b)).collect();
        for forward in [true, false] {
            let start = if forward { keys[0].0 } else { keys[n - 1].0 };
            let coll = &self.coll;
            let budget = self.budget() * (n as u64 + 2);
            let (r, _, _) = lib_call(None, budget, false, || {
                let mut seen: Vec<(Option<i32>, Option<C::P>)> = Vec::new();
                let mut h = coll.first_index_less(start);
                let mut steps = 0;
                while h != EMPTY_REF && steps <= n + 1 {
                    seen.push(coll.at(h));
                    h = if forward { coll.index_after(h) } else { coll.index_before(h) };
                    steps += 1;
                }
                (seen, h)
            });
            let (seen, last) = match r {
                Ok(x) => x,
                Err(e) => {
                    self.on_call_err(i, e, &[pn], "walk (index_after / index_before)");
                    return false;
                }
            };
            self.edge(3, "step_at_end");
            self.out.class("full_walk");
            trace!(self, "#{} walk {} from key {}: {} entries, ended at {}", i, if forward { "forward" } else { "backward" }, start, seen.len(), fmt_h(last));
            if !self.rc.obs(pn) {
                continue;
            }
            self.out.observations += 1;
            let mut exp = keys.clone();
            if !forward {
                exp.reverse();
            }
            let ok = last == EMPTY_REF && seen.len() == n && seen.iter().zip(exp.iter()).all(|(o, (k, s))| Self::same_entry(o, *k, *s));
            if !ok {
                self.out.fail(pn, "walk", i, format!("{}: walking {} from key {} visited {} entries ({:?}…) and ended at {}; the set holds {} keys {:?}", C::NAME, if forward { "forward" } else { "backward" }, start, seen.len(), seen.iter().take(6).map(|o| o.0).collect::<Vec<_>>(), fmt_h(last), n, exp.iter().take(8).map(|e| e.0).collect::<Vec<_>>()));
                return false;
            }
        }
        true
    }

    fn state_key(&self) -> Option<Vec<u8>> {
        let mut key = Vec::new();
        if let Some(s) = self.coll.snap() {
            if walk(&s).is_err() {
                return None;
            }
            fn rec<C: OrdColl>(coll: &C, s: &VerifSnapshot, slot: u32, out: &mut Vec<u8>) {
                if slot == EMPTY_REF {
                    out.push(0);
                    return;
                }
                out.push(if s.red[slot as usize] { 1 } else { 2 });
                out.extend_from_slice(&coll.key_at(slot).to_le_bytes());
                rec(coll, s, s.links[slot as usize][1], out);
                rec(coll, s, s.links[slot as usize][2], out);
            }
            rec(&self.coll, &s, s.root, &mut key);
        } else {
            for k in self.model.keys() {
                key.extend_from_slice(&k.to_le_bytes());
            }
        }
        Some(key)
    }
}

fn fmt_h(h: u32) -> String {
    if h == EMPTY_REF {
        "EMPTY".to_string()
    } else {
        h.to_string()
    }
}

fn gcd(a: i64, b: i64) -> i64 {
    if b == 0 {
        a.abs()
    } else {
        gcd(b, a % b)
    }
}
