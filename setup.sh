#!/bin/sh
# Offline build of the verification harness against /repo's current working tree (hooks on):
# the checked build (debug assertions, overflow checks) and the optimised build without them.
set -e
cd "$(dirname "$0")/harness"
CARGO_NET_OFFLINE=true cargo build --release --offline --bin worker
CARGO_NET_OFFLINE=true cargo build --profile fast --offline --bin worker --target-dir target-fast
echo "setup ok: $(pwd)/target/release/worker $(pwd)/target-fast/fast/worker"
