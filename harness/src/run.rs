//! Common execution infrastructure: run configuration, outcomes, guarded library calls.

use crate::instr::{self, BudgetPanic, InjectedPanic};
use std::cell::RefCell;
use std::panic::{catch_unwind, AssertUnwindSafe};

pub type PropMask = u32;

pub const fn p(n: u32) -> PropMask {
    1 << n
}

pub fn prop_num(id: &str) -> Option<u32> {
    let n: u32 = id.strip_prefix('C')?.parse().ok()?;
    if (1..=20).contains(&n) {
        Some(n)
    } else {
        None
    }
}

pub fn prop_id(n: u32) -> String {
    format!("C{:02}", n)
}

#[derive(Clone, Debug, Default)]
pub struct RunCfg {
    /// properties whose oracles are active
    pub observe: PropMask,
    /// fault injection: (operation index, callback index within that operation)
    pub inject: Option<(usize, u64)>,
    /// compounding fault injection: every operation is attempted with countdown 0,1,2,… on the same
    /// instance until it completes
    pub inject_all: bool,
    /// collect a human-readable trace of the resolved operations
    pub trace: bool,
    /// compute the canonical abstract state at the end (enumerator)
    pub want_state: bool,
    /// print "@op i name obs=0/1 inj=0/1" to stderr before each operation (crash triage)
    pub progress: bool,
}

impl RunCfg {
    pub fn observing(mask: PropMask) -> Self {
        RunCfg { observe: mask, ..Default::default() }
    }
    pub fn progress_line(&self, i: usize, name: &str, observed: bool) {
        if self.progress {
            eprintln!("@op {} {} obs={} inj={}", i, name, observed as u8, (self.inject.is_some() || self.inject_all) as u8);
        }
    }
    #[inline]
    pub fn obs(&self, n: u32) -> bool {
        self.observe & p(n) != 0
    }
    #[inline]
    pub fn obs_any(&self, mask: PropMask) -> bool {
        self.observe & mask != 0
    }
}

#[derive(Clone, Debug)]
pub struct Failure {
    /// property number 1..=20
    pub prop: u32,
    /// stable identifier of the oracle site
    pub site: &'static str,
    pub msg: String,
    pub op_index: usize,
}

#[derive(Clone, Debug, Default)]
pub struct Outcome {
    pub failure: Option<Failure>,
    pub classes: Vec<&'static str>,
    pub state_key: Option<Vec<u8>>,
    pub trace: Vec<String>,
    pub degraded: u32,
    pub ops_run: u32,
    /// a panic / contract problem in an operation the observed properties do not cover stopped the case
    pub blocked: Option<String>,
    /// user callbacks made by each executed operation (C18 enumeration)
    pub callbacks: Vec<u64>,
    /// injected panics that were delivered
    pub injections: u32,
    /// exported vector (key family, terminal export)
    pub exported: Option<Vec<u64>>,
    /// observations made (oracle evaluations)
    pub observations: u32,
    /// observations compared with the fresh twin (C12)
    pub twin_obs: u32,
}

impl Outcome {
    pub fn class(&mut self, c: &'static str) {
        if !self.classes.contains(&c) {
            self.classes.push(c);
        }
    }
    pub fn twin_observation(&mut self) {
        self.twin_obs += 1;
        if self.twin_obs >= 5 {
            self.class("twin_obs_ge_5");
        }
    }
    pub fn has(&self, c: &str) -> bool {
        self.classes.iter().any(|x| *x == c)
    }
    pub fn fail(&mut self, prop: u32, site: &'static str, op_index: usize, msg: String) {
        if self.failure.is_none() {
            self.failure = Some(Failure { prop, site, msg, op_index });
        }
    }
}

#[derive(Debug)]
pub enum CallErr {
    Injected,
    Budget,
    Panic(String),
}

thread_local! {
    pub static LAST_PANIC: RefCell<String> = const { RefCell::new(String::new()) };
}

/// Install a quiet panic hook that remembers message and location.
pub fn install_panic_hook() {
    std::panic::set_hook(Box::new(|info| {
        let payload = info.payload();
        if payload.is::<InjectedPanic>() || payload.is::<BudgetPanic>() {
            return;
        }
        let msg = if let Some(s) = payload.downcast_ref::<&str>() {
            s.to_string()
        } else if let Some(s) = payload.downcast_ref::<String>() {
            s.clone()
        } else {
            "non-string panic payload".to_string()
        };
        let loc = info.location().map(|l| format!("{}:{}", l.file(), l.line())).unwrap_or_default();
        LAST_PANIC.with(|p| *p.borrow_mut() = format!("{} at {}", msg, loc));
    }));
}

pub const DEFAULT_BUDGET: u64 = 1 << 40;
/// callback budget of the harness's own auxiliary library calls (sweeps, held-handle checks,
/// twin calls): far above anything a terminating call needs, small enough that a loop over user
/// code that never ends is reported within a fraction of a second
pub const INTERNAL_BUDGET: u64 = 20_000_000;

/// Run one library call with the instrumentation armed. Returns the result, the number of user
/// callbacks the call made and the C20 log.
pub fn lib_call<T>(
    countdown: Option<u64>,
    budget: u64,
    record: bool,
    f: impl FnOnce() -> T,
) -> (Result<T, CallErr>, u64, Vec<(i32, i32, u32)>) {
    instr::arm(countdown, budget, record);
    let r = catch_unwind(AssertUnwindSafe(f));
    let (calls, _injected, log) = instr::disarm();
    match r {
        Ok(v) => (Ok(v), calls, log),
        Err(payload) => {
            let e = if payload.is::<InjectedPanic>() {
                CallErr::Injected
            } else if payload.is::<BudgetPanic>() {
                CallErr::Budget
            } else {
                let m = LAST_PANIC.with(|p| p.borrow().clone());
                CallErr::Panic(if m.is_empty() { "panic".to_string() } else { m })
            };
            (Err(e), calls, log)
        }
    }
}

/// Callback budget for an operation on a collection of `n` stored entries: generous multiple of
/// what a logarithmic descent with lazy removals or a full purge may need.
pub fn budget_for(n: usize) -> u64 {
    let lg = (usize::BITS - (n + 2).leading_zeros()) as u64;
    64 * (lg + 2) + 8 * n as u64 + 64
}
