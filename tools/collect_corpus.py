#!/usr/bin/env python3
"""Copy the shrunk replay of each detected seeded change into corpus/ as a regression case
(corpus cases are replayed first by every run of the property they belong to and must pass on the
unchanged tree).  Usage: tools/collect_corpus.py <name> ..."""
import json, os, shutil, sys
V = "/verif"
for name in sys.argv[1:]:
    m = json.load(open(os.path.join(V, "seeded", name, "meta.json")))
    line = (m["checks"].get(m["breaks_property"]) or {}).get("violation_line") or ""
    path = line.split("replay=")[-1].strip() if "replay=" in line else ""
    if not os.path.isabs(path):
        path = os.path.join(V, path)
    if path and os.path.exists(path):
        dst = os.path.join(V, "corpus", "seeded-%s.case" % name)
        shutil.copy(path, dst)
        print(name, "->", dst, sum(1 for _ in open(dst)), "lines")
    else:
        print(name, "no replay file", path)
