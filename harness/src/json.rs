//! Minimal JSON value + writer (no external dependency).

#[derive(Clone, Debug)]
pub enum J {
    Null,
    Bool(bool),
    Int(i64),
    UInt(u64),
    Float(f64),
    Str(String),
    Arr(Vec<J>),
    Obj(Vec<(String, J)>),
}

impl J {
    pub fn obj() -> J {
        J::Obj(Vec::new())
    }
    pub fn put(&mut self, k: &str, v: J) -> &mut J {
        if let J::Obj(o) = self {
            o.push((k.to_string(), v));
        }
        self
    }
    pub fn s(v: impl Into<String>) -> J {
        J::Str(v.into())
    }
    pub fn write(&self, out: &mut String) {
        match self {
            J::Null => out.push_str("null"),
            J::Bool(b) => out.push_str(if *b { "true" } else { "false" }),
            J::Int(i) => out.push_str(&i.to_string()),
            J::UInt(i) => out.push_str(&i.to_string()),
            J::Float(f) => {
                if f.is_finite() {
                    out.push_str(&format!("{}", f));
                } else {
                    out.push_str("null");
                }
            }
            J::Str(s) => {
                out.push('"');
                for c in s.chars() {
                    match c {
                        '"' => out.push_str("\\\""),
                        '\\' => out.push_str("\\\\"),
                        '\n' => out.push_str("\\n"),
                        '\r' => out.push_str("\\r"),
                        '\t' => out.push_str("\\t"),
                        c if (c as u32) < 0x20 => out.push_str(&format!("\\u{:04x}", c as u32)),
                        c => out.push(c),
                    }
                }
                out.push('"');
            }
            J::Arr(a) => {
                out.push('[');
                for (i, v) in a.iter().enumerate() {
                    if i > 0 {
                        out.push(',');
                    }
                    v.write(out);
                }
                out.push(']');
            }
            J::Obj(o) => {
                out.push('{');
                for (i, (k, v)) in o.iter().enumerate() {
                    if i > 0 {
                        out.push(',');
                    }
                    J::Str(k.clone()).write(out);
                    out.push(':');
                    v.write(out);
                }
                out.push('}');
            }
        }
    }
    pub fn to_string(&self) -> String {
        let mut s = String::new();
        self.write(&mut s);
        s
    }
}
