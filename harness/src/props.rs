//! Per-property job tables: generator mixes, enumeration universes, fixed tables, non-triviality
//! rules; and `eval_case`, the single test function used by search, shrinking and replay.

use crate::case::{Case, RawOp};
use crate::enumerate::EnumSpec;
use crate::gen::*;
use crate::instr::SItem;
use crate::interp_key::*;
use crate::interp_ord::*;
use crate::interp_seg::*;
use crate::run::{p, prop_num, Outcome, RunCfg};
use i_tree::key::list::KeyExpList;
use i_tree::key::tree::KeyExpTree;
use i_tree::map::list::MapList;
use i_tree::map::tree::MapTree;
use i_tree::set::list::SetList;
use i_tree::set::tree::SetTree;
use proptest::strategy::BoxedStrategy;

#[derive(Clone, Copy, Debug, PartialEq, Eq)]
pub enum Tier {
    Quick,
    Thorough,
}

#[derive(Clone, Debug, Default)]
pub struct Rule {
    pub all: Vec<&'static str>,
    pub any: Vec<&'static str>,
    pub at_least: Option<(usize, Vec<&'static str>)>,
    pub text: &'static str,
}

impl Rule {
    pub fn all(text: &'static str, v: &[&'static str]) -> Rule {
        Rule { all: v.to_vec(), text, ..Default::default() }
    }
    pub fn any(text: &'static str, v: &[&'static str]) -> Rule {
        Rule { any: v.to_vec(), text, ..Default::default() }
    }
    pub fn holds(&self, o: &Outcome) -> bool {
        if o.blocked.is_some() {
            return false;
        }
        if !self.all.iter().all(|c| o.has(c)) {
            return false;
        }
        if !self.any.is_empty() && !self.any.iter().any(|c| o.has(c)) {
            return false;
        }
        if let Some((n, list)) = &self.at_least {
            if list.iter().filter(|c| o.has(c)).count() < *n {
                return false;
            }
        }
        true
    }
}

pub enum JobKind {
    Random { strategy: BoxedStrategy<Case>, cases: usize },
    Enumerate { spec: EnumSpec },
    Fixed { cases: Vec<Case>, stop_on_first: bool },
}

pub struct Job {
    pub name: String,
    pub kind: JobKind,
    pub rule: Rule,
    /// classes that must be non-empty over the whole job (generator health)
    pub required: Vec<&'static str>,
}

pub const EDGE_CLASSES: &[&str] = &[
    "rm_two_children",
    "rm_black_leaf",
    "arena_growth",
    "step_at_end",
    "export_after_free",
    "handle_delete",
    "query_at_domain_edge",
    "clear_nonempty",
    "clear_ge_3_stored",
    "q_lazy_removal_2child",
    "q_lazy_removal",
    "iterator_dropped_midway",
    "query_with_expired_copies",
    "reinsert_expired_key",
    "domain_negative_lo",
];

// ------------------------------------------------------------------------------------------------
// dispatch

pub fn names_of(family: &str) -> Option<&'static [&'static str]> {
    match family {
        "key" => Some(KEY_OPS),
        "map" | "set" => Some(ORD_OPS),
        "seg" => Some(SEG_OPS),
        _ => None,
    }
}

/// run a case on the collection its configuration names
pub fn run_case(case: &Case, rc: &RunCfg) -> Outcome {
    let coll = case.get_str("coll", "tree");
    let val = case.get_str("val", "u64");
    match (case.family.as_str(), coll, val) {
        ("key", "list", "kbig") => run_key::<WideVal<KeyExpList<crate::instr::XKey, i32, KBig>>>(case, rc),
        ("key", _, "kbig") => run_key::<WideVal<KeyExpTree<crate::instr::XKey, i32, KBig>>>(case, rc),
        ("key", "list", _) => run_key::<KeyExpList<crate::instr::XKey, i32, u64>>(case, rc),
        ("key", _, _) => run_key::<KeyExpTree<crate::instr::XKey, i32, u64>>(case, rc),
        ("map", "tree", "big") => run_ord::<MapTree<crate::instr::MKey, crate::instr::Big>>(case, rc),
        ("set", "tree", "big") => run_ord::<SetTree<crate::instr::MKey, SItem<crate::instr::Big>>>(case, rc),
        ("map", "list", "wide") => run_ord::<MapList<crate::instr::MKey, crate::instr::Wide>>(case, rc),
        ("map", _, "wide") => run_ord::<MapTree<crate::instr::MKey, crate::instr::Wide>>(case, rc),
        ("set", "list", "wide") => run_ord::<SetList<SItem<crate::instr::Wide>>>(case, rc),
        ("set", _, "wide") => run_ord::<SetTree<crate::instr::MKey, SItem<crate::instr::Wide>>>(case, rc),
        ("map", "list", "string") => run_ord::<MapList<crate::instr::MKey, String>>(case, rc),
        ("map", "list", _) => run_ord::<MapList<crate::instr::MKey, u64>>(case, rc),
        ("map", _, "string") => run_ord::<MapTree<crate::instr::MKey, String>>(case, rc),
        ("map", _, _) => run_ord::<MapTree<crate::instr::MKey, u64>>(case, rc),
        ("set", "list", "string") => run_ord::<SetList<SItem<String>>>(case, rc),
        ("set", "list", _) => run_ord::<SetList<SItem<u64>>>(case, rc),
        ("set", _, "bare") => run_ord::<SetTree<i32, i32>>(case, rc),
        ("set", _, "string") => run_ord::<SetTree<crate::instr::MKey, SItem<String>>>(case, rc),
        ("set", _, _) => run_ord::<SetTree<crate::instr::MKey, SItem<u64>>>(case, rc),
        ("seg", _, _) => run_seg(case, rc),
        _ => {
            let mut o = Outcome::default();
            o.blocked = Some(format!("unknown family {}", case.family));
            o
        }
    }
}

#[derive(Clone, Copy, Debug, Default)]
pub struct EvalOpts {
    pub trace: bool,
    pub want_state: bool,
    pub progress: bool,
}

fn merge_classes(into: &mut Outcome, from: &Outcome) {
    for c in &from.classes {
        into.class(c);
    }
}

/// The test function of a property on a case.
pub fn eval_case(case: &Case, opts: EvalOpts) -> Outcome {
    let Some(pn) = prop_num(&case.prop) else {
        let mut o = Outcome::default();
        o.blocked = Some(format!("unknown property {}", case.prop));
        return o;
    };
    let mut rc = RunCfg::observing(p(pn));
    rc.trace = opts.trace;
    rc.want_state = opts.want_state;
    rc.progress = opts.progress;
    match pn {
        7 => {
            // tree and list on the same history; both against the reference, and against each other
            let mut ct = case.clone();
            ct.set("coll", "tree");
            let mut ot = run_case(&ct, &rc);
            if ot.failure.is_some() || ot.blocked.is_some() {
                return ot;
            }
            let mut cl = case.clone();
            cl.set("coll", "list");
            let mut rl = rc.clone();
            rl.want_state = false;
            let ol = run_case(&cl, &rl);
            if opts.trace {
                ot.trace.push("---- same history on KeyExpList ----".to_string());
                ot.trace.extend(ol.trace.iter().cloned());
            }
            if let Some(f) = ol.failure {
                ot.failure = Some(f);
                return ot;
            }
            if ol.blocked.is_some() {
                ot.blocked = ol.blocked;
                return ot;
            }
            if ot.exported != ol.exported {
                let n = ot.ops_run as usize;
                ot.fail(7, "tree-list-export-differ", n, format!("KeyExpTree exported {:?} but KeyExpList exported {:?} for the same history", ot.exported, ol.exported));
            }
            ot.observations += ol.observations;
            ot
        }
        18 => eval_inject(case, &rc),
        _ => run_case(case, &rc),
    }
}

/// C18: exhaustive enumeration of injection points of one history (or compounding mode)
fn eval_inject(case: &Case, rc: &RunCfg) -> Outcome {
    if case.get_str("mode", "exhaustive") == "compound" {
        let mut r = rc.clone();
        r.inject_all = true;
        return run_case(case, &r);
    }
    let mut base = run_case(case, rc);
    if base.failure.is_some() || base.blocked.is_some() {
        return base;
    }
    let cbs = base.callbacks.clone();
    let mut runs = 1u32;
    // long histories: enumerate the injection points of the last `inject_tail` operations only
    let tail = case.get_i64("inject_tail", 0);
    let from = if tail > 0 { cbs.len().saturating_sub(tail as usize) } else { 0 };
    for (i, n) in cbs.iter().enumerate() {
        if i < from {
            continue;
        }
        // a purge may make hundreds of callbacks: all of the first 40, then every 7th
        for j in (0..*n).filter(|j| *j < 40 || j % 7 == 0 || *j + 3 >= *n) {
            let mut r = rc.clone();
            r.inject = Some((i, j));
            r.trace = false;
            let o = run_case(case, &r);
            runs += 1;
            base.injections += o.injections;
            base.observations += o.observations;
            merge_classes(&mut base, &o);
            if o.injections > 0 {
                base.class("injection_delivered");
            }
            if let Some(mut f) = o.failure {
                f.msg = format!("[injection at op #{} callback #{}] {}", i, j, f.msg);
                base.failure = Some(f);
                if rc.trace {
                    let mut r2 = r.clone();
                    r2.trace = true;
                    let o2 = run_case(case, &r2);
                    base.trace.push(format!("---- re-run with a panic injected into callback #{} of op #{} ----", j, i));
                    base.trace.extend(o2.trace);
                }
                return base;
            }
            if o.blocked.is_some() {
                base.blocked = o.blocked;
                return base;
            }
        }
    }
    base.ops_run = runs;
    base
}

// ------------------------------------------------------------------------------------------------
// enumeration universes

fn key_alphabet(u: i64, dmax: i64, with_get: bool, with_export: bool) -> Vec<RawOp> {
    let mut a = Vec::new();
    for k in 0..u {
        for d in 0..=dmax {
            a.push(RawOp::new(K_INS, &[k, d]));
        }
        // an entry that never expires (expiration == the type's maximum)
        a.push(RawOp::new(K_INS, &[k, 500_000]));
    }
    for pr in 0..=u + 1 {
        a.push(RawOp::new(K_FL, &[pr]));
        a.push(RawOp::new(K_FLE, &[pr]));
        for fam in 0..3 {
            a.push(RawOp::new(K_FLEBY, &[pr, fam]));
        }
        if with_get {
            a.push(RawOp::new(K_GET, &[pr]));
        }
    }
    a.push(RawOp::new(K_ADV, &[1]));
    a.push(RawOp::new(K_CLEAR, &[0]));
    a.push(RawOp::new(K_ISEMPTY, &[]));
    if with_export {
        for dt in 0..=dmax + 1 {
            a.push(RawOp::new(K_EXPORT, &[dt]));
        }
    }
    a
}

/// the same universe with the clock starting `tmax` ticks before the end of the expiration type, so
/// that the closure includes time == E::max_expiration() and expirations saturating at it
fn key_enum_edge(prop: &str, coll: &str, u: i64, dmax: i64, tmax: i64, with_get: bool, with_export: bool, max_states: usize) -> EnumSpec {
    let mut e = key_enum(prop, coll, u, dmax, tmax, with_get, with_export, max_states);
    e.base.set("clock0", i32::MAX as i64 - tmax);
    e
}

fn key_enum(prop: &str, coll: &str, u: i64, dmax: i64, tmax: i64, with_get: bool, with_export: bool, max_states: usize) -> EnumSpec {
    let mut base = Case::new(prop, "key");
    base.set("coll", coll).set("cap", 8).set("U", u).set("Tmax", tmax);
    EnumSpec { base, alphabet: key_alphabet(u, dmax, with_get, with_export), battery: vec![], max_states }
}

fn ord_enum(prop: &str, family: &str, coll: &str, val: &str, u: i64, handles: bool, battery: &[u8], max_states: usize) -> EnumSpec {
    let mut base = Case::new(prop, family);
    base.set("coll", coll).set("val", val).set("cap", 8).set("U", u);
    let mut a = Vec::new();
    for k in 0..u {
        a.push(RawOp::new(O_INS, &[k]));
        a.push(RawOp::new(O_DEL, &[k, 1]));
    }
    // one absent delete per probe position
    for pr in 0..=u + 1 {
        a.push(RawOp::new(O_DEL, &[pr, 0]));
    }
    if handles {
        for pr in 0..=u + 1 {
            a.push(RawOp::new(O_HDEL, &[pr]));
            a.push(RawOp::new(O_HWRITE, &[pr]));
        }
    }
    a.push(RawOp::new(O_CLEAR, &[]));
    let battery = battery.iter().map(|k| RawOp::new(*k, &[])).collect();
    EnumSpec { base, alphabet: a, battery, max_states }
}

/// Small segment-tree universe closed to a fixpoint: a 17-point domain (bucket == point), a handful
/// of representative ranges, expirations {clock, clock+1, never}, at most `max_values` values
/// stored at once, fully and partially consumed queries, clock advance, clear.
fn seg_enum(prop: &str, max_values: i64, tmax: i64, edge: bool, max_states: usize) -> EnumSpec {
    let mut base = Case::new(prop, "seg");
    base.set("lo", 0).set("len", 17).set("rtype", "i32").set("max_values", max_values).set("Tmax", tmax);
    if edge {
        base.set("clock0", i32::MAX as i64 - tmax);
    }
    let ranges: [(i64, i64); 7] = [(0, 0), (0, 16), (3, 8), (8, 8), (5, 12), (16, 16), (8, 15)];
    let mut a = Vec::new();
    for (x, y) in ranges {
        for d in [1i64, 2, 9] {
            a.push(RawOp::new(S_INS, &[x, 0, y, 0, d]));
        }
        a.push(RawOp::new(S_QUERY, &[x, 0, y, 0, 0]));
        a.push(RawOp::new(S_QUERY, &[x, 0, y, 0, 1]));
        // one `next`, the rest through internal iteration (`for_each`)
        a.push(RawOp::new(S_QUERY, &[x, 0, y, 0, 7]));
    }
    a.push(RawOp::new(S_ADV, &[1]));
    a.push(RawOp::new(S_CLEAR, &[0]));
    EnumSpec { base, alphabet: a, battery: vec![], max_states }
}

// ------------------------------------------------------------------------------------------------
// job tables

fn job(name: &str, kind: JobKind, rule: Rule, required: &[&'static str]) -> Job {
    Job { name: name.to_string(), kind, rule, required: required.to_vec() }
}

fn random(strategy: BoxedStrategy<Case>, cases: usize) -> JobKind {
    JobKind::Random { strategy, cases }
}

fn key_mix(coll: &'static str, us: &[i64], dmax: i64, advmax: i64, w: [u32; 8], len: std::ops::RangeInclusive<usize>, fin: Option<R>) -> KeyMix {
    KeyMix { coll, us: us.to_vec(), dmax, advmax, w, len, final_export: fin, snap: true, edge_clock: true }
}

fn ord_mix(family: &'static str, coll: &'static str, vals: &[&'static str], us: &[i64], w: [u32; 10], len: std::ops::RangeInclusive<usize>, phases: u8) -> OrdMix {
    OrdMix { family, coll, vals: vals.to_vec(), us: us.to_vec(), w, len, snap: true, phases }
}

pub fn jobs(pn: u32, tier: Tier) -> Vec<Job> {
    let q = tier == Tier::Quick;
    // scale: number of random cases
    // fixed work per tier (never a time limit); VERIF_SCALE multiplies the random-case budgets
    let scale: usize = std::env::var("VERIF_SCALE").ok().and_then(|s| s.parse().ok()).unwrap_or(8);
    let n = |quick: usize, thorough: usize| if q { quick * scale } else { thorough * scale };
    let id: &'static str = Box::leak(crate::run::prop_id(pn).into_boxed_str());
    let mut v = Vec::new();
    match pn {
        1 => {
            let rule = Rule::all("a query issued while >=1 expired entry is still physically stored and >=2 entries are live", &["q_expired_stored_2live"]);
            let req = ["q_t_eq_exp", "q_lazy_removal", "q_lazy_removal_2child", "reinsert_expired_key", "probe_below", "probe_equal", "probe_gap", "probe_above", "ins_exp_eq_time"];
            v.push(job("key-tree-tiny", random(key_cases(id, key_mix("tree", &[3, 4, 6], 4, 2, [30, 12, 12, 12, 0, 20, 2, 3], 0..=60, None)), n(24_000, 600_000)), rule.clone(), &req));
            v.push(job("key-tree-medium", random(key_cases(id, key_mix("tree", &[16, 64], 30, 6, [34, 12, 12, 12, 0, 18, 1, 2], 0..=200, None)), n(4_000, 100_000)), rule.clone(), &req));
            v.push(job("key-tree-big", random(key_cases(id, key_mix("tree", &[300, 3000], 1500, 30, [50, 8, 8, 8, 0, 16, 0, 1], 300..=1500, None)), n(150, 4_000)), rule.clone(), &["height_ge_6", "arena_growth_x2"]));
            v.push(job("key-tree-big-clear-big", random(key_clear_cases_sized(id, "tree", vec![300, 3000], 1500, 30, 100..=500), n(100, 3_000)), rule.clone(), &[]));
            if !q {
                let mut m = key_mix("tree", &[1_000_000], 3000, 40, [60, 8, 8, 8, 0, 14, 0, 1], 500..=6000, None);
                m.snap = false;
                v.push(job("key-tree-large", random(key_cases(id, m), 1_500), Rule::default(), &[]));
            }
            v.push(job("key-tree-local", random(key_local_cases(id, "tree", [30, 12, 12, 12, 0, 16, 0, 0], false), n(2_000, 50_000)), Rule::any("a history whose operations all address one window of 6-16 adjacent keys of a tree of 20-250 entries", &["local_window"]), &[]));
            v.push(job("key-tree-look-churn-look", JobKind::Fixed { cases: key_period_cases(id, "tree", !q), stop_on_first: false }, Rule::any("two looks at one key with the slot it was found in turned over in between", &["sparse_observations", "reinsert_expired_key", "lookup_after_removal", "query_with_expired_copies"]), &[]));
            v.push(job("key-tree-sparse-observations", random(key_sparse_cases(id, "tree"), n(400, 12_000)), Rule::any("a history of >=600 operations in which observations are >=100 operations apart", &["sparse_observations"]), &["sparse_observations"]));
            v.push(job("key-tree-deep", JobKind::Fixed { cases: key_deep_cases(id, !q, true, false), stop_on_first: false }, Rule::any("a structure with a root-to-leaf path of >= 33 nodes", &["height_ge_33"]), &[]));
            v.push(job("key-tree-huge", random(key_huge_cases(id, "tree", [20, 12, 12, 12, 0, 14, 0, 1], 270_000, false), n(3, 60)), Rule::any("a structure of >=4096 entries built by a bulk fill", &["stored_ge_4096"]), &["stored_ge_4096"]));
            v.push(job("key-tree-enum", JobKind::Enumerate { spec: if q { key_enum(id, "tree", 3, 2, 3, false, false, 400_000) } else { key_enum(id, "tree", 4, 2, 3, false, false, 1_500_000) } }, rule.clone(), &[]));
            v.push(job("key-tree-enum-last-ticks", JobKind::Enumerate { spec: key_enum_edge(id, "tree", 3, 2, 2, false, false, 1_500_000) }, rule, &[]));
        }
        2 => {
            let rule = Rule::all("history with >=1 removal of a two-children node and >=1 removal of a black leaf (sentinel path)", &["rm_two_children", "rm_black_leaf"]);
            let req = ["rm_red_leaf", "rm_black_leaf", "rm_one_child", "rm_two_children", "rotation_or_relink", "red_root"];
            let w = [40, 30, 2, 1, 1, 2, 2, 8, 0, 0];
            for (fam, vals) in [("map", vec!["u64", "string", "wide", "big"]), ("set", vec!["u64", "bare", "string", "wide", "big"])] {
                v.push(job(&format!("{}-tree-churn", fam), random(ord_cases(id, ord_mix(fam, "tree", &vals, &[8, 16, 64], w, 0..=300, 3)), n(6_000, 150_000)), rule.clone(), &req));
                v.push(job(&format!("{}-tree-big", fam), random(ord_cases(id, ord_mix(fam, "tree", &vals, &[300, 3000], w, 300..=1500, 3)), n(150, 4_000)), rule.clone(), &["height_ge_6", "arena_growth_x2"]));
                v.push(job(&format!("{}-tree-insertion-runs", fam), random(ord_runs_cases(id, fam, "tree", vals.clone(), [0, 6, 0, 0, 1, 0, 0, 3, 0, 0]), n(800, 20_000)), rule.clone(), &["run_ascending", "run_descending", "height_ge_6"]));
                if !q {
                    let mut m = ord_mix(fam, "tree", &vals, &[4096, 100_000], w, 0..=4000, 3);
                    m.snap = true;
                    v.push(job(&format!("{}-tree-large", fam), random(ord_cases(id, m), 600), rule.clone(), &["height_ge_6"]));
                }
                v.push(job(&format!("{}-tree-enum", fam), JobKind::Enumerate { spec: ord_enum(id, fam, "tree", "u64", if q { 6 } else { 8 }, true, &[], 2_000_000) }, rule.clone(), &[]));
                // the same closure with a heap-allocated and with a large plain value type
                v.push(job(&format!("{}-tree-enum-string", fam), JobKind::Enumerate { spec: ord_enum(id, fam, "tree", "string", if q { 5 } else { 7 }, true, &[], 2_000_000) }, rule.clone(), &[]));
                v.push(job(&format!("{}-tree-enum-wide", fam), JobKind::Enumerate { spec: ord_enum(id, fam, "tree", "wide", if q { 5 } else { 7 }, true, &[], 2_000_000) }, rule.clone(), &[]));
                v.push(job(&format!("{}-tree-enum-big", fam), JobKind::Enumerate { spec: ord_enum(id, fam, "tree", "big", if q { 5 } else { 7 }, true, &[], 2_000_000) }, rule.clone(), &[]));
            }
            for (fam, vals) in [("map", vec!["u64", "string"]), ("set", vec!["u64", "bare"])] {
                v.push(job(&format!("{}-tree-huge", fam), random(ord_huge_cases(id, fam, "tree", vals, [30, 30, 2, 1, 0, 2, 2, 8, 0, 0], 270_000), n(2, 40)), Rule::any("a structure of >=4096 entries built by a bulk fill", &["stored_ge_4096"]), &["stored_ge_4096"]));
            }
            v.push(job("key-tree-huge", random(key_huge_cases(id, "tree", [30, 8, 8, 8, 8, 16, 0, 1], 270_000, true), n(2, 40)), Rule::any("a structure of >=4096 entries built by a bulk fill", &["stored_ge_4096"]), &["stored_ge_4096"]));
            for fam in ["map", "set"] {
                v.push(job(&format!("{}-tree-deep", fam), JobKind::Fixed { cases: ord_deep_cases(id, fam, "u64", !q), stop_on_first: false }, Rule::any("a structure with a root-to-leaf path of >= 33 nodes", &["height_ge_33"]), &[]));
            }
            v.push(job("key-tree-deep", JobKind::Fixed { cases: key_deep_cases(id, !q, true, true), stop_on_first: false }, Rule::any("a structure with a root-to-leaf path of >= 33 nodes", &["height_ge_33"]), &[]));
            for (fam, vals) in [("map", vec!["u64", "string"]), ("set", vec!["u64", "bare"])] {
                v.push(job(&format!("{}-tree-local", fam), random(ord_local_cases(id, fam, "tree", vals, [30, 30, 2, 0, 0, 4, 2, 10, 0, 0]), n(1_500, 40_000)), Rule::any("a history whose operations all address one window of 6-16 adjacent keys of a tree of 20-250 entries", &["local_window"]), &[]));
            }
            v.push(job("key-tree-local", random(key_local_cases(id, "tree", [30, 8, 8, 8, 8, 18, 0, 0], true), n(1_500, 40_000)), Rule::any("a history whose operations all address one window of 6-16 adjacent keys of a tree of 20-250 entries", &["local_window"]), &[]));
            let krule = Rule::all("history with a lazy removal of a two-children node and of a black leaf", &["rm_two_children", "rm_black_leaf"]);
            v.push(job("key-tree-churn", random(key_cases(id, key_mix("tree", &[8, 16, 64], 12, 4, [40, 8, 8, 8, 8, 22, 1, 1], 0..=300, Some(0..=4))), n(6_000, 150_000)), krule.clone(), &["rm_two_children", "rm_black_leaf", "rm_red_leaf", "rm_one_child", "rotation_or_relink"]));
            v.push(job("key-tree-big", random(key_cases(id, key_mix("tree", &[300, 3000], 1500, 30, [50, 6, 6, 6, 6, 16, 0, 1], 300..=1500, Some(0..=600))), n(150, 4_000)), krule.clone(), &["height_ge_6", "arena_growth_x2"]));
            v.push(job("key-tree-big-clear-big", random(key_clear_cases_sized(id, "tree", vec![300, 3000], 1500, 30, 100..=500), n(100, 3_000)), krule.clone(), &[]));
            for (fam, vals) in [("map", vec!["u64", "string", "wide", "big"]), ("set", vec!["u64", "bare", "string", "wide", "big"])] {
                v.push(job(&format!("{}-tree-big-clear-big", fam), random(ord_clear_cases_sized(id, fam, "tree", vals, vec![300, 3000], 100..=500), n(100, 3_000)), rule.clone(), &[]));
            }
            {
                // the same closure with 160-byte values
                let mut e = key_enum(id, "tree", 3, 2, if q { 2 } else { 3 }, true, true, 1_500_000);
                e.base.set("val", "kbig");
                v.push(job("key-tree-enum-wide-values", JobKind::Enumerate { spec: e }, krule.clone(), &[]));
            }
            v.push(job("key-tree-enum", JobKind::Enumerate { spec: if q { key_enum(id, "tree", 3, 2, 3, true, true, 400_000) } else { key_enum(id, "tree", 4, 2, 3, true, true, 1_500_000) } }, krule, &[]));
        }
        3 => {
            let rule = Rule::all("a query whose answer has >=2 values of which >=1 is stored at >=2 places, in a history holding >=1 value already expired at that time", &["c03_nontrivial"]);
            let req = ["iterator_dropped_midway", "query_after_dropped_iterator", "query_at_bucket_boundary", "query_single_point", "query_t_eq_exp", "after_clear", "query_with_expired_copies", "ins_already_expired"];
            v.push(job("seg-histories", random(seg_cases(id, SegMix { w: [30, 30, 12, 2, 4, 10, 10], len: 0..=60, thorough: !q, only_small: false }), n(16_000, 400_000)), rule.clone(), &req));
            v.push(job("seg-histories-small-domains", random(seg_cases(id, SegMix { w: [30, 30, 12, 2, 4, 10, 10], len: 0..=60, thorough: !q, only_small: true }), n(8_000, 200_000)), rule.clone(), &req));
            v.push(job("seg-long-histories", random(seg_cases(id, SegMix { w: [50, 24, 6, 1, 2, 12, 8], len: 100..=600, thorough: !q, only_small: false }), n(400, 10_000)), rule.clone(), &["chunk_ge_17_entries"]));
            v.push(job("seg-long-histories-small-domains", random(seg_cases(id, SegMix { w: [50, 24, 6, 1, 2, 12, 8], len: 100..=600, thorough: !q, only_small: true }), n(300, 8_000)), rule.clone(), &["chunk_ge_17_entries"]));
            v.push(job("seg-insert-bursts", random(seg_cases(id, SegMix { w: [80, 3, 5, 0, 1, 12, 1], len: 200..=700, thorough: !q, only_small: false }), n(300, 8_000)), rule.clone(), &["query_ge_65_expired_copies"]));
            v.push(job("seg-hot-spots", random(seg_hot_cases(id, [14, 4, 2, 0, 1, 3, 1], 150..=700, false, None), n(400, 10_000)), rule.clone(), &["chunk_ge_65_entries"]));
            v.push(job("seg-look-churn-look", JobKind::Fixed { cases: seg_period_cases(id, !q), stop_on_first: false }, Rule::any("two looks at one key with the slot it was found in turned over in between", &["sparse_observations", "reinsert_expired_key", "lookup_after_removal", "query_with_expired_copies"]), &[]));
            v.push(job("seg-sparse-observations", random(seg_sparse_cases(id), n(300, 8_000)), Rule::any("a history of >=600 operations in which observations are >=100 operations apart", &["sparse_observations"]), &["sparse_observations"]));
            v.push(job("seg-mass-expiry", random(seg_mass_expiry_cases(id), n(150, 4_000)), rule.clone(), &[]));
            v.push(job("seg-17-enum", JobKind::Enumerate { spec: seg_enum(id, if q { 2 } else { 3 }, 2, false, 3_000_000) }, Rule::any("transition with an expired copy stored or a dropped iterator", &["query_with_expired_copies", "iterator_dropped_midway"]), &[]));
            v.push(job("seg-17-enum-last-ticks", JobKind::Enumerate { spec: seg_enum(id, 2, 2, true, 3_000_000) }, Rule::any("transition with an expired copy stored or a dropped iterator", &["query_with_expired_copies", "iterator_dropped_midway"]), &[]));
            v.push(job("seg-32-all-pairs-x-3-times", JobKind::Fixed { cases: seg_pair_cases(id, true), stop_on_first: false }, Rule::any("every (insert range, query range) pair over the 32-point domain at t in {exp-1, exp, exp+1}", &["query_t_eq_exp"]), &[]));
        }
        4 | 5 => {
            let fam: &'static str = if pn == 4 { "map" } else { "set" };
            let vals: Vec<&'static str> = if pn == 4 { vec!["u64", "string", "wide", "big"] } else { vec!["u64", "string", "bare", "wide", "big"] };
            let rule = Rule::all("a deletion of a node with two children (successor entity move) followed by a lookup", &["lookup_after_2child_removal"]);
            let req = ["delete_absent", "get_present", "get_absent", "rm_two_children", "clear_nonempty"];
            let w = [36, 26, 26, 3, 1, 0, 3, 0, 0, 0];
            v.push(job(&format!("{}-tree-tiny", fam), random(ord_cases(id, ord_mix(fam, "tree", &vals, &[4, 6, 8], w, 0..=60, 1)), n(12_000, 300_000)), rule.clone(), &req));
            v.push(job(&format!("{}-tree-medium", fam), random(ord_cases(id, ord_mix(fam, "tree", &vals, &[16, 64], w, 0..=300, 3)), n(5_000, 120_000)), rule.clone(), &req));
            v.push(job(&format!("{}-tree-big", fam), random(ord_cases(id, ord_mix(fam, "tree", &vals, &[300, 3000], w, 300..=1500, 3)), n(150, 4_000)), rule.clone(), &["height_ge_6"]));
            v.push(job(&format!("{}-tree-big-clear-big", fam), random(ord_clear_cases_sized(id, fam, "tree", vals.clone(), vec![300, 3000], 100..=500), n(100, 3_000)), rule.clone(), &[]));
            v.push(job(&format!("{}-tree-insertion-runs", fam), random(ord_runs_cases(id, fam, "tree", vals.clone(), [0, 6, 4, 0, 2, 0, 1, 0, 0, 0]), n(600, 15_000)), rule.clone(), &["run_ascending", "run_descending"]));
            v.push(job(&format!("{}-tree-local", fam), random(ord_local_cases(id, fam, "tree", vals.clone(), [30, 26, 20, 0, 0, 4, 4, 6, 0, 0]), n(2_000, 50_000)), Rule::any("a history whose operations all address one window of 6-16 adjacent keys of a tree of 20-250 entries", &["local_window"]), &[]));
            v.push(job(&format!("{}-tree-look-churn-look", fam), JobKind::Fixed { cases: ord_period_cases(id, fam, "tree", !q), stop_on_first: false }, Rule::any("two looks at one key with the slot it was found in turned over in between", &["sparse_observations", "reinsert_expired_key", "lookup_after_removal", "query_with_expired_copies"]), &[]));
            v.push(job(&format!("{}-tree-sparse-observations", fam), random(ord_sparse_cases(id, fam, "tree", vals.clone()), n(400, 12_000)), Rule::any("a history of >=600 operations in which observations are >=100 operations apart", &["sparse_observations"]), &["sparse_observations"]));
            v.push(job(&format!("{}-tree-deep", fam), JobKind::Fixed { cases: ord_deep_cases(id, fam, "u64", !q), stop_on_first: false }, Rule::any("a structure with a root-to-leaf path of >= 33 nodes", &["height_ge_33"]), &[]));
            v.push(job(&format!("{}-tree-huge", fam), random(ord_huge_cases(id, fam, "tree", vals.clone(), w, 270_000), n(3, 60)), Rule::any("a structure of >=4096 entries built by a bulk fill", &["stored_ge_4096"]), &["stored_ge_4096"]));
            if !q {
                v.push(job(&format!("{}-tree-large", fam), random(ord_cases(id, ord_mix(fam, "tree", &vals, &[4096, 1_000_000], w, 0..=4000, 3)), 600), rule.clone(), &[]));
            }
            for val in vals.iter().take(2) {
                v.push(job(&format!("{}-tree-enum-{}", fam, val), JobKind::Enumerate { spec: ord_enum(id, fam, "tree", val, if q { 6 } else { 8 }, true, &[O_SWEEP], 2_000_000) }, rule.clone(), &[]));
            }
        }
        6 => {
            let rule = Rule::all("lookup, in a tree with >=3 stored entries, of a live key that is not at the root", &["get_nonroot"]);
            let req = ["get_left_of_root", "get_right_of_root", "get_depth_ge_3", "get_stored_expired", "get_never_stored_or_gone", "q_lazy_removal"];
            v.push(job("key-tree-tiny", random(key_cases(id, key_mix("tree", &[3, 4, 6], 4, 2, [30, 5, 5, 5, 30, 18, 2, 1], 0..=60, None)), n(24_000, 600_000)), rule.clone(), &req));
            v.push(job("key-tree-medium", random(key_cases(id, key_mix("tree", &[16, 64], 30, 6, [34, 4, 4, 4, 34, 16, 1, 1], 0..=200, None)), n(4_000, 100_000)), rule.clone(), &req));
            v.push(job("key-tree-big", random(key_cases(id, key_mix("tree", &[300, 3000], 1500, 30, [50, 3, 3, 3, 24, 16, 0, 1], 300..=1500, None)), n(150, 4_000)), rule.clone(), &["height_ge_6", "get_depth_ge_3"]));
            v.push(job("key-tree-big-clear-big", random(key_clear_cases_sized(id, "tree", vec![300, 3000], 1500, 30, 100..=500), n(100, 3_000)), rule.clone(), &[]));
            v.push(job("key-tree-local", random(key_local_cases(id, "tree", [30, 4, 4, 4, 30, 16, 0, 0], false), n(2_000, 50_000)), Rule::any("a history whose operations all address one window of 6-16 adjacent keys of a tree of 20-250 entries", &["local_window"]), &[]));
            v.push(job("key-tree-look-churn-look", JobKind::Fixed { cases: key_period_cases(id, "tree", !q), stop_on_first: false }, Rule::any("two looks at one key with the slot it was found in turned over in between", &["sparse_observations", "reinsert_expired_key", "lookup_after_removal", "query_with_expired_copies"]), &[]));
            v.push(job("key-tree-sparse-observations", random(key_sparse_cases(id, "tree"), n(600, 16_000)), Rule::any("a history of >=600 operations in which observations are >=100 operations apart", &["sparse_observations"]), &["sparse_observations"]));
            v.push(job("key-tree-deep", JobKind::Fixed { cases: key_deep_cases(id, !q, true, false), stop_on_first: false }, Rule::any("a structure with a root-to-leaf path of >= 33 nodes", &["height_ge_33"]), &[]));
            v.push(job("key-tree-huge", random(key_huge_cases(id, "tree", [20, 4, 4, 4, 30, 14, 0, 1], 270_000, false), n(3, 60)), Rule::any("a structure of >=4096 entries built by a bulk fill", &["stored_ge_4096"]), &["stored_ge_4096"]));
            v.push(job("key-tree-enum", JobKind::Enumerate { spec: if q { key_enum(id, "tree", 3, 2, 3, true, false, 400_000) } else { key_enum(id, "tree", 4, 2, 3, true, false, 1_500_000) } }, rule.clone(), &[]));
            v.push(job("key-tree-enum-last-ticks", JobKind::Enumerate { spec: key_enum_edge(id, "tree", 3, 2, 2, true, false, 1_500_000) }, rule, &[]));
        }
        7 => {
            let rule = Rule::all("export with >=1 entry expired at t still physically stored and >=1 free slot that was used before", &["export_expired_and_after_free"]);
            let req = ["export_t_eq_exp", "export_expired_successor", "export_all_expired", "export_none_expired", "export_after_free", "export_ge_3_stored"];
            v.push(job("key-export-tiny", random(key_cases(id, key_mix("tree", &[3, 4, 6], 4, 2, [34, 7, 7, 7, 7, 20, 2, 1], 0..=50, Some(0..=5))), n(24_000, 600_000)), rule.clone(), &req));
            v.push(job("key-export-medium", random(key_cases(id, key_mix("tree", &[16, 64], 20, 5, [40, 6, 6, 6, 6, 20, 1, 1], 0..=200, Some(0..=24))), n(5_000, 120_000)), rule.clone(), &req));
            v.push(job("key-export-big", random(key_cases(id, key_mix("tree", &[300, 3000], 1500, 30, [50, 5, 5, 5, 5, 16, 0, 1], 300..=1500, Some(0..=1600))), n(150, 4_000)), rule.clone(), &["height_ge_6", "export_after_free"]));
            v.push(job("key-export-big-clear-big", random(key_clear_cases_sized(id, "tree", vec![300, 3000], 1500, 30, 100..=500), n(100, 3_000)), rule.clone(), &[]));
            v.push(job("key-export-full-universe-mass-expiry", random(key_full_universe_cases(id, "tree"), n(4_000, 100_000)), Rule::any("export of a tree in which >=1 expired entry is still stored", &["export_expired_stored"]), &[]));
            v.push(job("key-export-local", random(key_local_cases(id, "tree", [34, 7, 7, 7, 7, 20, 0, 0], true), n(2_000, 50_000)), Rule::any("a history whose operations all address one window of 6-16 adjacent keys of a tree of 20-250 entries", &["local_window"]), &[]));
            v.push(job("key-export-after-sweep", JobKind::Fixed { cases: key_sweep_cases(id, !q, true), stop_on_first: false }, Rule::any("a sweep that releases the slots of an exactly full arena one by one", &["bulk"]), &[]));
            v.push(job("key-export-deep", JobKind::Fixed { cases: key_deep_cases(id, !q, false, true), stop_on_first: false }, Rule::any("a structure with a root-to-leaf path of >= 33 nodes", &["height_ge_33"]), &[]));
            v.push(job("key-export-huge", random(key_huge_cases(id, "both", [30, 6, 6, 6, 6, 18, 0, 1], 270_000, true), n(3, 60)), Rule::any("a structure of >=4096 entries built by a bulk fill", &["stored_ge_4096"]), &["stored_ge_4096"]));
            v.push(job("key-export-enum", JobKind::Enumerate { spec: if q { key_enum(id, "tree", 3, 2, 3, true, true, 400_000) } else { key_enum(id, "tree", 4, 2, 3, true, true, 1_500_000) } }, rule.clone(), &[]));
            v.push(job("key-export-enum-last-ticks", JobKind::Enumerate { spec: key_enum_edge(id, "tree", 3, 2, 2, true, true, 1_500_000) }, rule, &[]));
        }
        8 => {
            let rule = Rule::any("a non-empty handle to a non-root node used for write or delete in a tree of >=3 entries", &["hwrite_nonroot_ge_3", "hdel_nonroot_ge_3"]);
            let req = ["hprobe_below_min", "hprobe_equal", "hprobe_gap", "hprobe_above_max", "hwrite_nonroot_ge_3", "hdel_nonroot_ge_3"];
            let w = [34, 8, 4, 1, 1, 24, 12, 12, 0, 0];
            for (fam, vals) in [("map", vec!["u64", "string", "wide", "big"]), ("set", vec!["u64", "string", "wide", "big"])] {
                v.push(job(&format!("{}-tree-handles", fam), random(ord_cases(id, ord_mix(fam, "tree", &vals, &[4, 6, 8, 16, 64], w, 0..=120, 1)), n(8_000, 200_000)), rule.clone(), &req));
                v.push(job(&format!("{}-tree-handles-big", fam), random(ord_cases(id, ord_mix(fam, "tree", &vals, &[300, 3000], [40, 14, 2, 0, 0, 20, 8, 12, 0, 0], 300..=1500, 3)), n(120, 3_000)), rule.clone(), &["height_ge_6"]));
                v.push(job(&format!("{}-tree-insertion-runs", fam), random(ord_runs_cases(id, fam, "tree", vals.clone(), [0, 2, 0, 0, 1, 6, 2, 2, 0, 0]), n(600, 15_000)), rule.clone(), &["run_ascending", "run_descending"]));
                v.push(job(&format!("{}-tree-big-clear-big", fam), random(ord_clear_cases_sized(id, fam, "tree", vals.clone(), vec![300, 3000], 100..=500), n(80, 2_000)), rule.clone(), &[]));
                v.push(job(&format!("{}-tree-local", fam), random(ord_local_cases(id, fam, "tree", vec!["u64", "string"], [30, 12, 2, 0, 0, 24, 10, 14, 0, 0]), n(2_000, 50_000)), Rule::any("a history whose operations all address one window of 6-16 adjacent keys of a tree of 20-250 entries", &["local_window"]), &[]));
                v.push(job(&format!("{}-tree-look-churn-look", fam), JobKind::Fixed { cases: ord_period_cases(id, fam, "tree", !q), stop_on_first: false }, Rule::any("two looks at one key with the slot it was found in turned over in between", &["sparse_observations", "reinsert_expired_key", "lookup_after_removal", "query_with_expired_copies"]), &[]));
                v.push(job(&format!("{}-tree-sparse-observations", fam), random(ord_sparse_cases(id, fam, "tree", vec!["u64", "string"]), n(300, 8_000)), Rule::any("a history of >=600 operations in which observations are >=100 operations apart", &["sparse_observations"]), &["sparse_observations"]));
                v.push(job(&format!("{}-tree-deep", fam), JobKind::Fixed { cases: ord_deep_cases(id, fam, "u64", !q), stop_on_first: false }, Rule::any("a structure with a root-to-leaf path of >= 33 nodes", &["height_ge_33"]), &[]));
                v.push(job(&format!("{}-tree-huge", fam), random(ord_huge_cases(id, fam, "tree", vec!["u64", "string"], [30, 14, 2, 0, 0, 20, 8, 12, 0, 0], 270_000), n(2, 30)), Rule::any("a structure of >=4096 entries built by a bulk fill", &["stored_ge_4096"]), &["stored_ge_4096"]));
                v.push(job(&format!("{}-tree-enum", fam), JobKind::Enumerate { spec: ord_enum(id, fam, "tree", "u64", if q { 6 } else { 8 }, true, &[O_HSWEEP], 2_000_000) }, rule.clone(), &[]));
            }
        }
        9 => {
            let rule = Rule::all("a neighbour step taken from an extreme entry", &["step_at_end"]);
            let req = ["step_at_end_root", "step_at_end_nonroot", "step_single_entry", "step_inner", "full_walk"];
            let w = [34, 14, 2, 1, 1, 0, 0, 6, 30, 8];
            v.push(job("set-tree-steps", random(ord_cases(id, ord_mix("set", "tree", &["u64", "string", "bare", "wide", "big"], &[4, 6, 8, 16, 64], w, 0..=120, 1)), n(10_000, 250_000)), rule.clone(), &req));
            v.push(job("set-tree-steps-big", random(ord_cases(id, ord_mix("set", "tree", &["u64", "bare"], &[300, 3000], [50, 18, 0, 0, 0, 0, 0, 6, 20, 1], 300..=1500, 3)), n(120, 3_000)), rule.clone(), &["height_ge_6"]));
            v.push(job("set-tree-big-clear-big", random(ord_clear_cases_sized(id, "set", "tree", vec!["u64", "bare"], vec![300, 3000], 100..=500), n(80, 2_000)), rule.clone(), &[]));
            // structured insertion orders: blocks of descending / ascending runs build the sparse,
            // maximally deep shapes random orders practically never produce
            v.push(job("set-tree-insertion-runs", random(ord_runs_cases(id, "set", "tree", vec!["u64", "bare"], [0, 2, 0, 0, 1, 0, 0, 1, 6, 1]), n(1_500, 40_000)), rule.clone(), &["run_ascending", "run_descending", "height_ge_6"]));
            if !q {
                v.push(job("set-tree-steps-large", random(ord_cases(id, ord_mix("set", "tree", &["u64", "bare"], &[4096], [60, 20, 0, 0, 0, 0, 0, 4, 10, 1], 0..=3000, 3)), 400), rule.clone(), &[]));
            }
            v.push(job("set-tree-local", random(ord_local_cases(id, "set", "tree", vec!["u64", "bare", "big"], [30, 20, 0, 0, 0, 4, 0, 8, 30, 0]), n(2_000, 50_000)), Rule::any("a history whose operations all address one window of 6-16 adjacent keys of a tree of 20-250 entries", &["local_window"]), &[]));
            v.push(job("set-tree-deep", JobKind::Fixed { cases: ord_deep_cases(id, "set", "u64", !q), stop_on_first: false }, Rule::any("a structure with a root-to-leaf path of >= 33 nodes", &["height_ge_33"]), &[]));
            v.push(job("set-tree-huge", random(ord_huge_cases(id, "set", "tree", vec!["u64", "bare"], [30, 18, 0, 0, 0, 0, 0, 6, 20, 1], 270_000), n(3, 50)), Rule::any("a structure of >=4096 entries built by a bulk fill", &["stored_ge_4096"]), &["stored_ge_4096"]));
            v.push(job("set-tree-enum", JobKind::Enumerate { spec: ord_enum(id, "set", "tree", "u64", if q { 6 } else { 8 }, true, &[O_STEPALL, O_WALK], 2_000_000) }, rule, &[]));
        }
        10 => {
            let rule = Rule { at_least: Some((3, EDGE_CLASSES.to_vec())), text: "history that exercised >=3 distinct edge classes (two-children removal, sentinel path, arena growth, step at an end, export after free, handle delete, query at domain edge, clear+reuse, lazy removals, dropped iterator, …)", ..Default::default() };
            let kw = [30, 8, 8, 8, 10, 20, 2, 2];
            let ow = [30, 14, 6, 1, 1, 8, 6, 8, 14, 4];
            let mw = [30, 16, 8, 1, 1, 10, 8, 10, 0, 0];
            for coll in ["tree", "list"] {
                v.push(job(&format!("key-{}", coll), random(key_cases(id, key_mix(coll, &[3, 6, 16, 64], 12, 4, kw, 0..=150, Some(0..=12))), n(8_000, 200_000)), rule.clone(), &[]));
                v.push(job(&format!("map-{}", coll), random(ord_cases(id, ord_mix("map", coll, if coll == "tree" { &["u64", "string", "wide", "big"] } else { &["u64", "string", "wide"] }, &[4, 8, 16, 64], mw, 0..=150, 3)), n(6_000, 150_000)), rule.clone(), &[]));
                v.push(job(&format!("set-{}", coll), random(ord_cases(id, ord_mix("set", coll, if coll == "tree" { &["u64", "string", "bare", "wide", "big"] } else { &["u64", "string", "wide"] }, &[4, 8, 16, 64], ow, 0..=150, 3)), n(6_000, 150_000)), rule.clone(), &[]));
            }
            v.push(job("seg", random(seg_cases(id, SegMix { w: [30, 30, 12, 2, 4, 10, 10], len: 0..=60, thorough: !q, only_small: false }), n(8_000, 200_000)), rule.clone(), &[]));
            v.push(job("seg-long", random(seg_cases(id, SegMix { w: [50, 20, 8, 1, 3, 12, 6], len: 100..=600, thorough: !q, only_small: false }), n(300, 8_000)), rule.clone(), &[]));
            v.push(job("seg-hot-spots", random(seg_hot_cases(id, [14, 4, 2, 0, 1, 3, 1], 150..=700, false, None), n(300, 8_000)), rule.clone(), &[]));
            v.push(job("seg-mass-expiry", random(seg_mass_expiry_cases(id), n(100, 3_000)), rule.clone(), &[]));
            v.push(job("seg-17-enum", JobKind::Enumerate { spec: seg_enum(id, 2, 2, false, 3_000_000) }, rule.clone(), &[]));
            v.push(job("map-tree-insertion-runs", random(ord_runs_cases(id, "map", "tree", vec!["u64", "string"], [0, 4, 2, 0, 1, 2, 1, 2, 0, 0]), n(400, 10_000)), rule.clone(), &[]));
            v.push(job("set-tree-insertion-runs", random(ord_runs_cases(id, "set", "tree", vec!["u64", "bare"], [0, 4, 2, 0, 1, 2, 1, 2, 4, 1]), n(400, 10_000)), rule.clone(), &[]));
            v.push(job("set-list-insertion-runs", random(ord_runs_cases(id, "set", "list", vec!["u64"], [0, 4, 2, 0, 1, 2, 1, 2, 4, 1]), n(200, 5_000)), rule.clone(), &[]));
            for coll in ["tree", "list"] {
                v.push(job(&format!("key-{}-big", coll), random(key_cases(id, key_mix(coll, &[300, 3000], 1500, 30, [50, 6, 6, 6, 8, 16, 1, 1], 300..=1500, Some(0..=600))), n(100, 3_000)), rule.clone(), &[]));
                v.push(job(&format!("map-{}-big", coll), random(ord_cases(id, ord_mix("map", coll, &["u64", "string"], &[300, 3000], mw, 300..=1500, 3)), n(100, 3_000)), rule.clone(), &[]));
                v.push(job(&format!("set-{}-big", coll), random(ord_cases(id, ord_mix("set", coll, &["u64", "string"], &[300, 3000], ow, 300..=1500, 3)), n(100, 3_000)), rule.clone(), &[]));
                v.push(job(&format!("key-{}-big-clear-big", coll), random(key_clear_cases_sized(id, coll, vec![300, 3000], 1500, 30, 100..=500), n(60, 2_000)), rule.clone(), &[]));
                v.push(job(&format!("map-{}-big-clear-big", coll), random(ord_clear_cases_sized(id, "map", coll, vec!["u64", "string"], vec![300, 3000], 100..=500), n(60, 2_000)), rule.clone(), &[]));
                v.push(job(&format!("set-{}-big-clear-big", coll), random(ord_clear_cases_sized(id, "set", coll, vec!["u64", "string"], vec![300, 3000], 100..=500), n(60, 2_000)), rule.clone(), &[]));
            }
            for coll in ["tree", "list"] {
                v.push(job(&format!("key-{}-local", coll), random(key_local_cases(id, coll, [30, 8, 8, 8, 10, 18, 0, 0], true), n(1_000, 30_000)), rule.clone(), &[]));
                v.push(job(&format!("map-{}-local", coll), random(ord_local_cases(id, "map", coll, vec!["u64", "string"], [30, 18, 8, 0, 0, 10, 8, 10, 0, 0]), n(1_000, 30_000)), rule.clone(), &[]));
                v.push(job(&format!("set-{}-local", coll), random(ord_local_cases(id, "set", coll, vec!["u64", "string"], [30, 18, 6, 0, 0, 8, 6, 8, 14, 0]), n(1_000, 30_000)), rule.clone(), &[]));
            }
            v.push(job("key-tree-sweep", JobKind::Fixed { cases: key_sweep_cases(id, !q, true), stop_on_first: false }, rule.clone(), &[]));
            v.push(job("key-tree-full-universe-mass-expiry", random(key_full_universe_cases(id, "tree"), n(3_000, 80_000)), rule.clone(), &[]));
            v.push(job("key-list-full-universe-mass-expiry", random(key_full_universe_cases(id, "list"), n(1_000, 30_000)), rule.clone(), &[]));
            v.push(job("key-tree-deep", JobKind::Fixed { cases: key_deep_cases(id, !q, true, true), stop_on_first: false }, Rule::any("a structure with a root-to-leaf path of >= 33 nodes", &["height_ge_33"]), &[]));
            for fam in ["map", "set"] {
                v.push(job(&format!("{}-tree-deep", fam), JobKind::Fixed { cases: ord_deep_cases(id, fam, "u64", !q), stop_on_first: false }, Rule::any("a structure with a root-to-leaf path of >= 33 nodes", &["height_ge_33"]), &[]));
            }
            for coll in ["tree", "list"] {
                v.push(job(&format!("key-{}-huge", coll), random(key_huge_cases(id, coll, [30, 6, 6, 6, 8, 16, 0, 1], 270_000, true), n(2, 40)), Rule::any("a structure of >=4096 entries built by a bulk fill", &["stored_ge_4096"]), &["stored_ge_4096"]));
                v.push(job(&format!("map-{}-huge", coll), random(ord_huge_cases(id, "map", coll, vec!["u64", "string"], mw, 270_000), n(2, 40)), Rule::any("a structure of >=4096 entries built by a bulk fill", &["stored_ge_4096"]), &["stored_ge_4096"]));
                v.push(job(&format!("set-{}-huge", coll), random(ord_huge_cases(id, "set", coll, vec!["u64", "string"], ow, 270_000), n(2, 40)), Rule::any("a structure of >=4096 entries built by a bulk fill", &["stored_ge_4096"]), &["stored_ge_4096"]));
            }
            v.push(job("seg-domain-table", JobKind::Fixed { cases: seg_domain_table(id, !q), stop_on_first: false }, Rule::any("domain with non-power-of-two length or negative lo", &["domain_non_pow2", "domain_negative_lo"]), &[]));
            v.push(job("map-tree-enum", JobKind::Enumerate { spec: ord_enum(id, "map", "tree", "u64", if q { 5 } else { 7 }, true, &[O_HSWEEP], 2_000_000) }, rule.clone(), &[]));
            v.push(job("set-tree-enum", JobKind::Enumerate { spec: ord_enum(id, "set", "tree", "u64", if q { 5 } else { 7 }, true, &[O_STEPALL, O_WALK], 2_000_000) }, rule.clone(), &[]));
            v.push(job("key-tree-enum", JobKind::Enumerate { spec: key_enum(id, "tree", 3, 2, if q { 2 } else { 3 }, true, true, 1_500_000) }, rule.clone(), &[]));
            if !q {
                let mut m = key_mix("tree", &[100_000], 300, 10, [60, 6, 6, 6, 6, 14, 0, 1], 500..=4000, Some(0..=100));
                m.snap = false;
                v.push(job("key-tree-large", random(key_cases(id, m), 800), Rule::default(), &[]));
            }
        }
        11 => {
            let rule = Rule::all("history with >=2 arena growth events and >=100 removals after the last growth", &["c11_nontrivial"]);
            let w = [40, 34, 1, 0, 1, 0, 0, 10, 0, 0];
            let lens = if q { 400..=2000 } else { 2000..=20000 };
            for (fam, vals) in [("map", vec!["u64", "string", "wide", "big"]), ("set", vec!["u64", "string", "wide", "big"])] {
                v.push(job(&format!("{}-tree-long-churn", fam), random(ord_cases(id, ord_mix(fam, "tree", &vals, &[20, 40, 100], w, lens.clone(), 1)), n(480, 500)), rule.clone(), &["arena_growth_x2", "clear_after_growth"]));
                v.push(job(&format!("{}-tree-enum", fam), JobKind::Enumerate { spec: ord_enum(id, fam, "tree", "u64", if q { 5 } else { 7 }, true, &[], 2_000_000) }, Rule::any("transition that removes an entry", &["rm_two_children", "rm_black_leaf", "rm_red_leaf", "rm_one_child", "rm_last"]), &[]));
            }
            v.push(job("key-tree-long-churn", random(key_cases(id, key_mix("tree", &[20, 40, 100], 30, 6, [50, 6, 6, 6, 6, 24, 1, 0], lens.clone(), Some(0..=8))), n(480, 500)), rule.clone(), &["arena_growth_x2", "clear_after_growth"]));
            for (fam, vals) in [("map", vec!["u64"]), ("set", vec!["u64"])] {
                v.push(job(&format!("{}-tree-big-churn", fam), random(ord_cases(id, ord_mix(fam, "tree", &vals, &[1000, 5000], w, 600..=2500, 3)), n(60, 1_500)), Rule::any("history with >=2 arena growth events", &["arena_growth_x2"]), &["arena_growth_x2"]));
            }
            v.push(job("key-tree-big-churn", random(key_cases(id, key_mix("tree", &[1000, 5000], 1500, 30, [50, 6, 6, 6, 6, 20, 1, 0], 600..=2500, Some(0..=800))), n(60, 1_500)), Rule::any("history with >=2 arena growth events", &["arena_growth_x2"]), &["arena_growth_x2"]));
            v.push(job("key-tree-big-clear-big", random(key_clear_cases_sized(id, "tree", vec![300, 3000], 1500, 30, 100..=500), n(100, 3_000)), Rule::any("clear after arena growth", &["clear_after_growth"]), &[]));
            for fam in ["map", "set"] {
                v.push(job(&format!("{}-tree-big-clear-big", fam), random(ord_clear_cases_sized(id, fam, "tree", vec!["u64"], vec![300, 3000], 100..=500), n(100, 3_000)), Rule::any("clear after arena growth", &["clear_after_growth"]), &[]));
            }
            for fam in ["map", "set"] {
                v.push(job(&format!("{}-tree-deep", fam), JobKind::Fixed { cases: ord_deep_cases(id, fam, "u64", !q), stop_on_first: false }, Rule::any("a structure with a root-to-leaf path of >= 33 nodes", &["height_ge_33"]), &[]));
            }
            v.push(job("key-tree-deep", JobKind::Fixed { cases: key_deep_cases(id, !q, true, true), stop_on_first: false }, Rule::any("a structure with a root-to-leaf path of >= 33 nodes", &["height_ge_33"]), &[]));
            for fam in ["map", "set"] {
                v.push(job(&format!("{}-tree-huge", fam), random(ord_huge_cases(id, fam, "tree", vec!["u64"], w, 270_000), n(2, 40)), Rule::any("a structure of >=4096 entries built by a bulk fill", &["stored_ge_4096"]), &["stored_ge_4096"]));
            }
            v.push(job("key-tree-huge", random(key_huge_cases(id, "tree", [40, 6, 6, 6, 6, 20, 0, 0], 270_000, true), n(2, 40)), Rule::any("a structure of >=4096 entries built by a bulk fill", &["stored_ge_4096"]), &["stored_ge_4096"]));
            for fam in ["map", "set"] {
                v.push(job(&format!("{}-tree-local", fam), random(ord_local_cases(id, fam, "tree", vec!["u64"], [36, 30, 1, 0, 0, 2, 0, 12, 0, 0]), n(1_500, 40_000)), Rule::any("a history whose operations all address one window of 6-16 adjacent keys of a tree of 20-250 entries", &["local_window"]), &[]));
            }
            v.push(job("key-tree-local", random(key_local_cases(id, "tree", [40, 6, 6, 6, 6, 22, 0, 0], true), n(1_500, 40_000)), Rule::any("a history whose operations all address one window of 6-16 adjacent keys of a tree of 20-250 entries", &["local_window"]), &[]));
            v.push(job("key-tree-enum", JobKind::Enumerate { spec: key_enum(id, "tree", 3, 2, if q { 2 } else { 3 }, true, true, 1_500_000) }, Rule::any("transition with a lazy removal", &["q_lazy_removal"]), &[]));
        }
        12 => {
            let rule = Rule::all("the prefix left >=3 entries stored at the clear and the suffix made >=5 observations compared with the fresh twin", &["clear_ge_3_stored", "twin_obs_ge_5"]);
            let req = ["clear_empty", "clear_after_growth", "twin_obs_ge_5"];
            for coll in ["tree", "list"] {
                let krule = Rule::all("prefix left >=3 entries (>=1 expired but not removed) and the suffix made >=5 twin observations", &["clear_ge_3_stored", "clear_with_expired_stored", "twin_obs_ge_5"]);
                v.push(job(&format!("key-{}", coll), random(key_clear_cases(id, coll, vec![4, 6, 16], 4, 2), n(5_000, 120_000)), krule, &["clock_restarted_earlier", "clear_empty", "twin_obs_ge_5"]));
                v.push(job(&format!("map-{}", coll), random(ord_clear_cases(id, "map", coll, if coll == "tree" { vec!["u64", "string", "wide", "big"] } else { vec!["u64", "string", "wide"] }, vec![6, 16, 40]), n(4_000, 100_000)), rule.clone(), if coll == "tree" { &req } else { &req[..1] }));
                v.push(job(&format!("set-{}", coll), random(ord_clear_cases(id, "set", coll, if coll == "tree" { vec!["u64", "string", "wide", "big"] } else { vec!["u64", "string", "wide"] }, vec![6, 16, 40]), n(4_000, 100_000)), rule.clone(), if coll == "tree" { &req } else { &req[..1] }));
            }
            v.push(job("seg", random(seg_clear_cases(id), n(5_000, 120_000)), Rule::all("prefix left >=3 values (>=1 expired) and the suffix made >=5 twin observations", &["clear_ge_3_stored", "clear_with_expired_stored", "twin_obs_ge_5"]), &["clock_restarted_earlier", "clear_empty"]));
            v.push(job("seg-expire-partial-queries-clear", random(seg_expire_partial_clear_cases(id), n(4_000, 100_000)), Rule::all("values expired before the clear, an abandoned query among the operations before it, >=3 twin observations after it", &["clear_with_expired_stored", "iterator_dropped_midway", "twin_started"]), &["clock_restarted_earlier"]));
            // big prefixes: arenas grown several times, long bucket lists
            for coll in ["tree", "list"] {
                v.push(job(&format!("key-{}-big-prefix", coll), random(key_clear_cases_sized(id, coll, vec![300, 3000], 1500, 30, 150..=600), n(120, 3_000)), Rule::all("prefix left >=3 entries and the suffix made >=5 twin observations", &["clear_ge_3_stored", "twin_obs_ge_5"]), &[]));
                v.push(job(&format!("map-{}-big-prefix", coll), random(ord_clear_cases_sized(id, "map", coll, vec!["u64", "string"], vec![300, 3000], 150..=600), n(120, 3_000)), rule.clone(), &[]));
                v.push(job(&format!("set-{}-big-prefix", coll), random(ord_clear_cases_sized(id, "set", coll, vec!["u64", "string"], vec![300, 3000], 150..=600), n(120, 3_000)), rule.clone(), &[]));
            }
            // deterministic: big, a few removals, clear, refill beyond / below the former size
            for fam in ["map", "set"] {
                let cases: Vec<Case> = ord_deep_cases(id, fam, "u64", !q).into_iter().filter(|c| c.ops.iter().any(|o| o.kind == O_CLEAR)).collect();
                v.push(job(&format!("{}-tree-big-clear-refill", fam), JobKind::Fixed { cases, stop_on_first: false }, Rule::any("a structure of >=4096 entries cleared and refilled", &["stored_ge_4096"]), &["stored_ge_65536"]));
            }
            let cases: Vec<Case> = key_deep_cases(id, !q, true, true).into_iter().filter(|c| c.ops.iter().any(|o| o.kind == K_CLEAR)).collect();
            v.push(job("key-tree-big-clear-refill", JobKind::Fixed { cases, stop_on_first: false }, Rule::any("a structure of >=4096 entries cleared and refilled", &["stored_ge_4096"]), &["stored_ge_65536"]));
            for coll in ["tree", "list"] {
                let hr = Rule::all("a structure of >=4096 entries cleared, then >=5 twin observations", &["stored_ge_4096", "twin_obs_ge_5"]);
                v.push(job(&format!("key-{}-huge", coll), random(key_huge_cases(id, coll, [30, 10, 10, 10, 14, 16, 0, 2], 140_000, true), n(2, 40)), hr.clone(), &["stored_ge_4096"]));
                v.push(job(&format!("map-{}-huge", coll), random(ord_huge_cases(id, "map", coll, vec!["u64", "string"], [30, 14, 20, 4, 0, 10, 6, 4, 0, 0], 140_000), n(2, 40)), hr.clone(), &["stored_ge_4096"]));
                v.push(job(&format!("set-{}-huge", coll), random(ord_huge_cases(id, "set", coll, vec!["u64", "string"], [30, 14, 20, 4, 0, 10, 6, 4, 6, 1], 140_000), n(2, 40)), hr.clone(), &["stored_ge_4096"]));
            }
        }
        13 => {
            let krule = Rule::all("KeyExpList history in which both an operation with an expired entry stored (purge) and one without (shortcut skip) occur", &["list_op_expired_stored", "list_op_no_expired_stored"]);
            v.push(job("key-list-tiny", random(key_cases(id, key_mix("list", &[3, 4, 6], 4, 2, [30, 9, 9, 9, 12, 20, 2, 3], 0..=60, Some(0..=5))), n(16_000, 400_000)), krule.clone(), &["q_t_eq_exp", "reinsert_expired_key", "ins_exp_eq_time"]));
            v.push(job("key-list-medium", random(key_cases(id, key_mix("list", &[16, 64], 30, 6, [34, 8, 8, 8, 10, 18, 1, 2], 0..=200, Some(0..=24))), n(3_000, 80_000)), krule.clone(), &[]));
            v.push(job("key-list-big", random(key_cases(id, key_mix("list", &[300, 3000], 1500, 30, [50, 6, 6, 6, 8, 16, 0, 1], 300..=1500, Some(0..=600))), n(120, 3_000)), krule.clone(), &[]));
            v.push(job("key-list-enum", JobKind::Enumerate { spec: if q { key_enum(id, "list", 3, 2, 3, true, true, 400_000) } else { key_enum(id, "list", 4, 2, 3, true, true, 1_500_000) } }, krule.clone(), &[]));
            v.push(job("key-list-enum-last-ticks", JobKind::Enumerate { spec: key_enum_edge(id, "list", 3, 2, 2, true, true, 1_500_000) }, krule, &[]));
            let mrule = Rule::any("a handle used for write or delete, or a lookup after a deletion", &["handle_delete", "hprobe_gap", "lookup_after_removal"]);
            let mw = [34, 16, 14, 2, 1, 14, 8, 8, 0, 0];
            v.push(job("map-list", random(ord_cases(id, ord_mix("map", "list", &["u64", "string", "wide"], &[4, 8, 16, 64], mw, 0..=120, 1)), n(8_000, 200_000)), mrule.clone(), &["hprobe_below_min", "hprobe_above_max", "delete_absent"]));
            let srule = Rule::all("SetList neighbour step past an end", &["step_at_end"]);
            let sw = [32, 12, 10, 2, 1, 10, 6, 6, 18, 5];
            v.push(job("set-list", random(ord_cases(id, ord_mix("set", "list", &["u64", "string", "wide"], &[4, 8, 16, 64], sw, 0..=120, 1)), n(8_000, 200_000)), srule.clone(), &["step_single_entry", "step_inner", "full_walk"]));
            v.push(job("map-list-big", random(ord_cases(id, ord_mix("map", "list", &["u64", "string"], &[300, 3000], mw, 300..=1500, 3)), n(100, 3_000)), Rule::default(), &[]));
            v.push(job("set-list-big", random(ord_cases(id, ord_mix("set", "list", &["u64", "string"], &[300, 3000], sw, 300..=1500, 3)), n(100, 3_000)), Rule::default(), &[]));
            v.push(job("key-list-local", random(key_local_cases(id, "list", [30, 8, 8, 8, 10, 18, 0, 0], true), n(1_500, 40_000)), Rule::any("a history whose operations all address one window of 6-16 adjacent keys of a tree of 20-250 entries", &["local_window"]), &[]));
            v.push(job("map-list-local", random(ord_local_cases(id, "map", "list", vec!["u64", "string"], [30, 16, 12, 0, 0, 14, 8, 10, 0, 0]), n(1_000, 30_000)), Rule::any("a history whose operations all address one window of 6-16 adjacent keys of a tree of 20-250 entries", &["local_window"]), &[]));
            v.push(job("set-list-local", random(ord_local_cases(id, "set", "list", vec!["u64", "string"], [30, 14, 8, 0, 0, 10, 6, 8, 18, 0]), n(1_000, 30_000)), Rule::any("a history whose operations all address one window of 6-16 adjacent keys of a tree of 20-250 entries", &["local_window"]), &[]));
            v.push(job("key-list-look-churn-look", JobKind::Fixed { cases: key_period_cases(id, "list", !q), stop_on_first: false }, Rule::any("two looks at one key with the slot it was found in turned over in between", &["sparse_observations", "reinsert_expired_key", "lookup_after_removal", "query_with_expired_copies"]), &[]));
            v.push(job("map-list-look-churn-look", JobKind::Fixed { cases: ord_period_cases(id, "map", "list", !q), stop_on_first: false }, Rule::any("two looks at one key with the slot it was found in turned over in between", &["sparse_observations", "reinsert_expired_key", "lookup_after_removal", "query_with_expired_copies"]), &[]));
            v.push(job("set-list-look-churn-look", JobKind::Fixed { cases: ord_period_cases(id, "set", "list", !q), stop_on_first: false }, Rule::any("two looks at one key with the slot it was found in turned over in between", &["sparse_observations", "reinsert_expired_key", "lookup_after_removal", "query_with_expired_copies"]), &[]));
            v.push(job("key-list-sparse-observations", random(key_sparse_cases(id, "list"), n(300, 8_000)), Rule::any("a history of >=600 operations in which observations are >=100 operations apart", &["sparse_observations"]), &["sparse_observations"]));
            v.push(job("map-list-sparse-observations", random(ord_sparse_cases(id, "map", "list", vec!["u64", "string"]), n(200, 5_000)), Rule::any("a history of >=600 operations in which observations are >=100 operations apart", &["sparse_observations"]), &["sparse_observations"]));
            v.push(job("set-list-sparse-observations", random(ord_sparse_cases(id, "set", "list", vec!["u64", "string"]), n(200, 5_000)), Rule::any("a history of >=600 operations in which observations are >=100 operations apart", &["sparse_observations"]), &["sparse_observations"]));
            v.push(job("key-list-huge", random(key_huge_cases(id, "list", [30, 6, 6, 6, 8, 16, 0, 1], 140_000, true), n(2, 40)), Rule::any("a structure of >=4096 entries built by a bulk fill", &["stored_ge_4096"]), &["stored_ge_4096"]));
            v.push(job("map-list-huge", random(ord_huge_cases(id, "map", "list", vec!["u64", "string"], mw, 140_000), n(2, 40)), Rule::any("a structure of >=4096 entries built by a bulk fill", &["stored_ge_4096"]), &["stored_ge_4096"]));
            v.push(job("set-list-huge", random(ord_huge_cases(id, "set", "list", vec!["u64", "string"], sw, 140_000), n(2, 40)), Rule::any("a structure of >=4096 entries built by a bulk fill", &["stored_ge_4096"]), &["stored_ge_4096"]));
            v.push(job("map-list-enum", JobKind::Enumerate { spec: ord_enum(id, "map", "list", "u64", if q { 5 } else { 7 }, true, &[O_SWEEP, O_HSWEEP], 100_000) }, mrule, &[]));
            v.push(job("set-list-enum", JobKind::Enumerate { spec: ord_enum(id, "set", "list", "u64", if q { 5 } else { 7 }, true, &[O_SWEEP, O_HSWEEP, O_STEPALL, O_WALK], 100_000) }, srule, &[]));
        }
        14 => {
            let rule = Rule::any("domain with non-power-of-two length or negative lo (or a refused domain of <=16 points)", &["domain_non_pow2", "domain_negative_lo", "domain_le_16"]);
            v.push(job("domain-table", JobKind::Fixed { cases: seg_domain_table(id, !q), stop_on_first: false }, rule.clone(), &["domain_le_16", "domain_built", "domain_wider_than_2_31"]));
            v.push(job("domain-random", random(seg_domain_cases(id), n(6_000, 150_000)), rule, &["domain_le_16", "domain_built"]));
        }
        15 => {
            v.push(job("seg-32-all-pairs", JobKind::Fixed { cases: seg_pair_cases(id, false), stop_on_first: false }, Rule::default(), &["ins_ge_5_copies"]));
            // the masks must be a pure function of the two ranges: every ordered pair of consecutive
            // inserts on one tree (tiling / copy-count oracle on both), then longer insert sequences
            v.push(job("seg-32-all-consecutive-insert-pairs", JobKind::Fixed { cases: seg_insert_pair_cases(id), stop_on_first: false }, Rule::default(), &["ins_ge_5_copies"]));
            // the same complete table on 32-bucket domains of other bucket widths (up to 2^58 points per
            // bucket) and positions: the masks are functions of the bucket ranges alone
            for (k, (lo, len, rt)) in PAIR_DOMAINS.iter().enumerate() {
                v.push(job(&format!("seg-all-pairs-{}-lo{}-len{}", rt, lo, len), JobKind::Fixed { cases: seg_pair_cases_on(id, false, *lo, *len, rt, (k % 2) as i64), stop_on_first: false }, Rule::default(), &["ins_ge_5_copies"]));
            }
            v.push(job("seg-wide-insert-sequences", random(seg_cases(id, SegMix { w: [40, 30, 0, 2, 2, 10, 10], len: 0..=40, thorough: !q, only_small: false }), n(2_000, 50_000)), Rule::any("a history with >=2 inserts before a query", &["query_ge2_answers_multi_place", "ins_ge_5_copies"]), &[]));
            // with a moving clock, clears and restarts: the places of every unexpired value must keep
            // tiling its range whatever was stored, expired, queried or cleared before
            v.push(job("seg-insert-sequences-with-time-and-clear", random(seg_cases(id, SegMix { w: [50, 8, 10, 4, 2, 12, 3], len: 0..=70, thorough: !q, only_small: false }), n(4_000, 100_000)), Rule::any("a history with >=2 inserts before a query", &["query_ge2_answers_multi_place", "ins_ge_5_copies"]), &["after_clear"]));
            v.push(job("seg-32-insert-sequences", random(seg_cases(id, SegMix { w: [40, 30, 0, 2, 2, 10, 10], len: 0..=40, thorough: false, only_small: true }), n(4_000, 100_000)), Rule::any("a history with >=2 inserts before a query", &["query_ge2_answers_multi_place", "ins_ge_5_copies"]), &[]));
            v.push(job("seg-32-hot-spots-long", random(seg_hot_cases(id, [14, 5, 1, 0, 1, 3, 2], 150..=700, true, None), n(400, 10_000)), Rule::any("a history with >=2 inserts before a query", &["query_ge2_answers_multi_place", "ins_ge_5_copies"]), &["chunk_ge_65_entries"]));
        }
        16 => {
            let rule = Rule::all("a fully consumed query issued while >=1 expired copy was physically stored", &["c16_nontrivial"]);
            v.push(job("seg-histories", random(seg_cases(id, SegMix { w: [34, 16, 16, 1, 14, 10, 6], len: 0..=60, thorough: !q, only_small: false }), n(16_000, 400_000)), rule.clone(), &["whole_domain_query", "iterator_dropped_midway"]));
            v.push(job("seg-histories-small-domains", random(seg_cases(id, SegMix { w: [34, 16, 16, 1, 14, 10, 6], len: 0..=60, thorough: !q, only_small: true }), n(8_000, 200_000)), rule, &["whole_domain_query"]));
            v.push(job("seg-long-histories", random(seg_cases(id, SegMix { w: [50, 14, 8, 1, 8, 12, 4], len: 100..=600, thorough: !q, only_small: false }), n(400, 10_000)), Rule::all("a fully consumed query issued while >=1 expired copy was physically stored", &["c16_nontrivial"]), &["chunk_ge_17_entries"]));
            v.push(job("seg-insert-bursts", random(seg_cases(id, SegMix { w: [80, 3, 5, 0, 2, 12, 1], len: 200..=700, thorough: !q, only_small: false }), n(300, 8_000)), Rule::all("a fully consumed query issued while >=1 expired copy was physically stored", &["c16_nontrivial"]), &["query_ge_65_expired_copies"]));
            v.push(job("seg-hot-spots", random(seg_hot_cases(id, [14, 3, 2, 0, 2, 3, 1], 150..=700, false, None), n(400, 10_000)), Rule::all("a fully consumed query issued while >=1 expired copy was physically stored", &["c16_nontrivial"]), &["chunk_ge_65_entries"]));
            v.push(job("seg-mass-expiry", random(seg_mass_expiry_cases(id), n(150, 4_000)), Rule::all("a fully consumed query issued while >=1 expired copy was physically stored", &["c16_nontrivial"]), &[]));
            v.push(job("seg-17-enum", JobKind::Enumerate { spec: seg_enum(id, if q { 2 } else { 3 }, 2, false, 3_000_000) }, Rule::all("a fully consumed query issued while >=1 expired copy was physically stored", &["c16_nontrivial"]), &[]));
            v.push(job("seg-17-enum-last-ticks", JobKind::Enumerate { spec: seg_enum(id, 2, 2, true, 3_000_000) }, Rule::all("a fully consumed query issued while >=1 expired copy was physically stored", &["c16_nontrivial"]), &[]));
        }
        17 => {
            let rule = Rule::all("an insertion during which the parent link of a held entry changed (rotation around a designated entry)", &["rotation_around_held_entry"]);
            let w = [60, 10, 10, 1, 3, 6, 2, 4, 0, 0];
            for (fam, vals) in [("map", vec!["u64", "string", "wide", "big"]), ("set", vec!["u64", "string", "bare", "wide", "big"])] {
                v.push(job(&format!("{}-tree-held-handles", fam), random(ord_cases(id, ord_mix(fam, "tree", &vals, &[16, 64, 300, 2000], w, 0..=150, 1)), n(8_000, 200_000)), rule.clone(), &["held_ge_2_across_insert"]));
                v.push(job(&format!("{}-tree-held-handles-big", fam), random(ord_cases(id, ord_mix(fam, "tree", &vals, &[1000, 5000], [70, 2, 4, 0, 0, 4, 2, 1, 0, 0], 200..=700, 1)), n(100, 3_000)), rule.clone(), &["height_ge_6"]));
                v.push(job(&format!("{}-tree-insertion-runs", fam), random(ord_runs_cases(id, fam, "tree", vals.clone(), [2, 0, 1, 0, 1, 1, 0, 0, 0, 0]), n(600, 15_000)), rule.clone(), &["run_ascending", "run_descending"]));
                v.push(job(&format!("{}-tree-local", fam), random(ord_local_cases(id, fam, "tree", vec!["u64", "string"], [40, 26, 4, 0, 0, 6, 2, 6, 0, 0]), n(3_000, 80_000)), Rule::any("a history whose operations all address one window of 6-16 adjacent keys of a tree of 20-250 entries", &["local_window"]), &[]));
                v.push(job(&format!("{}-tree-deep", fam), JobKind::Fixed { cases: ord_deep_cases(id, fam, "u64", !q), stop_on_first: false }, Rule::any("a structure with a root-to-leaf path of >= 33 nodes", &["height_ge_33"]), &[]));
                v.push(job(&format!("{}-tree-huge", fam), random(ord_huge_cases(id, fam, "tree", vec!["u64", "string"], [60, 6, 10, 0, 0, 6, 2, 2, 0, 0], 270_000), n(3, 50)), Rule::any("a structure of >=4096 entries built by a bulk fill", &["stored_ge_4096"]), &["stored_ge_4096"]));
                v.push(job(&format!("{}-tree-enum", fam), JobKind::Enumerate { spec: ord_enum(id, fam, "tree", "u64", if q { 6 } else { 8 }, false, &[], 2_000_000) }, rule.clone(), &[]));
            }
        }
        18 => {
            let rule = Rule::all("a history in which >=1 injected panic was delivered", &["injection_delivered"]);
            let kw = [34, 10, 10, 10, 10, 22, 1, 1];
            let ow = [40, 24, 10, 1, 1, 0, 0, 0, 0, 0];
            for coll in ["tree", "list"] {
                v.push(job(&format!("key-{}-exhaustive", coll), random(key_cases(id, key_mix(coll, &[3, 4, 6, 12], 4, 2, kw, 0..=14, None)), n(2_400, 60_000)), rule.clone(), &[]));
                v.push(job(&format!("map-{}-exhaustive", coll), random(ord_cases(id, ord_mix("map", coll, &["u64", "string"], &[4, 8, 16], ow, 0..=16, 1)), n(1_600, 40_000)), rule.clone(), &[]));
                v.push(job(&format!("set-{}-exhaustive", coll), random(ord_cases(id, ord_mix("set", coll, &["u64", "string"], &[4, 8, 16], ow, 0..=16, 1)), n(1_600, 40_000)), rule.clone(), &[]));
                v.push(job(&format!("key-{}-compound", coll), random(with_cfg(key_cases(id, key_mix(coll, &[6, 16, 64], 8, 3, kw, 0..=80, None)), "mode", "compound"), n(2_000, 50_000)), Rule::all(">=1 injected panic delivered (compounding mode)", &["injection_delivered_compound"]), &[]));
                v.push(job(&format!("map-{}-compound", coll), random(with_cfg(ord_cases(id, ord_mix("map", coll, &["u64", "string"], &[8, 16, 64], ow, 0..=80, 1)), "mode", "compound"), n(1_500, 40_000)), Rule::all(">=1 injected panic delivered (compounding mode)", &["injection_delivered_compound"]), &[]));
                v.push(job(&format!("set-{}-compound", coll), random(with_cfg(ord_cases(id, ord_mix("set", coll, &["u64", "string"], &[8, 16, 64], ow, 0..=80, 1)), "mode", "compound"), n(1_500, 40_000)), Rule::all(">=1 injected panic delivered (compounding mode)", &["injection_delivered_compound"]), &[]));
            }
            v.push(job("seg-exhaustive", random(seg_cases(id, SegMix { w: [34, 30, 14, 1, 6, 8, 6], len: 0..=14, thorough: false, only_small: false }), n(2_400, 60_000)), rule.clone(), &[]));
            v.push(job("seg-hot-compound", random(seg_hot_cases(id, [14, 4, 2, 0, 1, 3, 1], 100..=500, false, Some(("mode", "compound"))), n(100, 3_000)), Rule::all(">=1 injected panic delivered (compounding mode)", &["injection_delivered_compound"]), &["chunk_ge_65_entries"]));
            v.push(job("seg-hot-tail-exhaustive", random(seg_hot_cases(id, [14, 4, 2, 0, 1, 3, 1], 100..=400, false, Some(("inject_tail", "5"))), n(40, 1_000)), rule.clone(), &[]));
            for coll in ["tree", "list"] {
                v.push(job(&format!("key-{}-big-tail-exhaustive", coll), random(with_cfg(key_cases(id, key_mix(coll, &[300, 3000], 1500, 30, [50, 6, 6, 6, 8, 16, 0, 1], 200..=800, None)), "inject_tail", "5"), n(10, 300)), rule.clone(), &[]));
                v.push(job(&format!("map-{}-big-tail-exhaustive", coll), random(with_cfg(ord_cases(id, ord_mix("map", coll, &["u64", "string"], &[1000, 3000], ow, 200..=800, 1)), "inject_tail", "5"), n(10, 300)), rule.clone(), &[]));
                v.push(job(&format!("set-{}-big-tail-exhaustive", coll), random(with_cfg(ord_cases(id, ord_mix("set", coll, &["u64", "string"], &[1000, 3000], ow, 200..=800, 1)), "inject_tail", "5"), n(10, 300)), rule.clone(), &[]));
            }
        }
        19 => {
            let rule = Rule::all("export of a tree/list physically holding >=12 entries (the size at which the original over-allocation exceeded the bound)", &["export_cap_ge_12"]);
            v.push(job("export-size-ladder", JobKind::Fixed { cases: export_ladder(id, !q), stop_on_first: true }, rule.clone(), &["export_cap_ge_100"]));
            v.push(job("export-random-tree", random(key_cases(id, key_mix("tree", &[16, 64, 400], 40, 6, [60, 4, 4, 4, 4, 16, 1, 0], 0..=600, Some(0..=30))), n(3_000, 80_000)), rule.clone(), &[]));
            v.push(job("export-full-universe-mass-expiry", random(key_full_universe_cases(id, "tree"), n(4_000, 100_000)), Rule::any("export of a tree in which >=1 expired entry is still stored", &["export_expired_stored"]), &[]));
            v.push(job("export-after-sweep", JobKind::Fixed { cases: key_sweep_cases(id, !q, true), stop_on_first: false }, Rule::any("a sweep that releases the slots of an exactly full arena one by one", &["bulk"]), &[]));
            v.push(job("export-deep", JobKind::Fixed { cases: key_deep_cases(id, !q, true, true), stop_on_first: false }, Rule::any("a structure with a root-to-leaf path of >= 33 nodes", &["height_ge_33"]), &[]));
            v.push(job("export-huge", random(key_huge_cases(id, "tree", [40, 4, 4, 4, 4, 16, 0, 0], 270_000, true), n(3, 60)), Rule::any("a structure of >=4096 entries built by a bulk fill", &["stored_ge_4096"]), &["stored_ge_4096"]));
            v.push(job("export-random-list", random(key_cases(id, key_mix("list", &[16, 64, 400], 40, 6, [60, 4, 4, 4, 4, 16, 1, 0], 0..=600, Some(0..=30))), n(1_500, 40_000)), rule, &[]));
        }
        20 => {
            let rule = Rule::any("an operation executed while >=1 expired entry was physically stored", &["op_with_expired_stored", "q_expired_stored"]);
            let req = ["q_t_eq_exp", "reinsert_expired_key", "q_lazy_removal"];
            let w = [30, 10, 10, 10, 12, 22, 2, 1];
            v.push(job("key-tree-tiny", random(key_cases(id, key_mix("tree", &[3, 4, 6], 4, 2, w, 0..=60, None)), n(16_000, 400_000)), rule.clone(), &req));
            v.push(job("key-tree-medium", random(key_cases(id, key_mix("tree", &[16, 64], 30, 6, w, 0..=200, None)), n(3_000, 80_000)), rule.clone(), &req));
            v.push(job("key-list-tiny", random(key_cases(id, key_mix("list", &[3, 4, 6], 4, 2, w, 0..=60, None)), n(8_000, 200_000)), rule.clone(), &req[..2]));
            v.push(job("key-list-medium", random(key_cases(id, key_mix("list", &[16, 64], 30, 6, w, 0..=200, None)), n(2_000, 50_000)), rule.clone(), &[]));
            v.push(job("key-tree-big", random(key_cases(id, key_mix("tree", &[300, 3000], 1500, 30, [50, 6, 6, 6, 8, 16, 0, 1], 300..=1500, None)), n(120, 3_000)), rule.clone(), &["height_ge_6"]));
            v.push(job("key-tree-big-clear-big", random(key_clear_cases_sized(id, "tree", vec![300, 3000], 1500, 30, 100..=500), n(80, 2_000)), rule.clone(), &[]));
            v.push(job("key-list-big", random(key_cases(id, key_mix("list", &[300, 3000], 1500, 30, [50, 6, 6, 6, 8, 16, 0, 1], 300..=1500, None)), n(80, 2_000)), rule.clone(), &[]));
            v.push(job("key-tree-local", random(key_local_cases(id, "tree", [30, 8, 8, 8, 10, 16, 0, 0], false), n(1_500, 40_000)), Rule::any("a history whose operations all address one window of 6-16 adjacent keys of a tree of 20-250 entries", &["local_window"]), &[]));
            v.push(job("key-list-local", random(key_local_cases(id, "list", [30, 8, 8, 8, 10, 16, 0, 0], false), n(800, 20_000)), Rule::any("a history whose operations all address one window of 6-16 adjacent keys of a tree of 20-250 entries", &["local_window"]), &[]));
            v.push(job("key-tree-look-churn-look", JobKind::Fixed { cases: key_period_cases(id, "tree", !q), stop_on_first: false }, Rule::any("two looks at one key with the slot it was found in turned over in between", &["sparse_observations", "reinsert_expired_key", "lookup_after_removal", "query_with_expired_copies"]), &[]));
            v.push(job("key-list-look-churn-look", JobKind::Fixed { cases: key_period_cases(id, "list", !q), stop_on_first: false }, Rule::any("two looks at one key with the slot it was found in turned over in between", &["sparse_observations", "reinsert_expired_key", "lookup_after_removal", "query_with_expired_copies"]), &[]));
            v.push(job("key-tree-sparse-observations", random(key_sparse_cases(id, "tree"), n(300, 8_000)), Rule::any("a history of >=600 operations in which observations are >=100 operations apart", &["sparse_observations"]), &["sparse_observations"]));
            v.push(job("key-list-sparse-observations", random(key_sparse_cases(id, "list"), n(200, 5_000)), Rule::any("a history of >=600 operations in which observations are >=100 operations apart", &["sparse_observations"]), &["sparse_observations"]));
            v.push(job("key-tree-deep", JobKind::Fixed { cases: key_deep_cases(id, !q, true, false), stop_on_first: false }, Rule::any("a structure with a root-to-leaf path of >= 33 nodes", &["height_ge_33"]), &[]));
            v.push(job("key-tree-huge", random(key_huge_cases(id, "tree", [30, 6, 6, 6, 8, 16, 0, 1], 140_000, true), n(2, 30)), Rule::any("a structure of >=4096 entries built by a bulk fill", &["stored_ge_4096"]), &["stored_ge_4096"]));
            v.push(job("key-list-huge", random(key_huge_cases(id, "list", [30, 6, 6, 6, 8, 16, 0, 1], 70_000, true), n(1, 20)), Rule::any("a structure of >=4096 entries built by a bulk fill", &["stored_ge_4096"]), &["stored_ge_4096"]));
            v.push(job("key-tree-enum", JobKind::Enumerate { spec: key_enum(id, "tree", 3, 2, if q { 3 } else { 3 }, true, false, 1_500_000) }, rule.clone(), &[]));
            v.push(job("key-list-enum", JobKind::Enumerate { spec: key_enum(id, "list", 3, 2, 3, true, false, 1_500_000) }, rule.clone(), &[]));
            v.push(job("key-tree-enum-last-ticks", JobKind::Enumerate { spec: key_enum_edge(id, "tree", 3, 2, 2, true, false, 1_500_000) }, rule.clone(), &[]));
            v.push(job("key-list-enum-last-ticks", JobKind::Enumerate { spec: key_enum_edge(id, "list", 3, 2, 2, true, false, 1_500_000) }, rule, &[]));
        }
        _ => {}
    }
    v
}

fn with_cfg(s: BoxedStrategy<Case>, key: &'static str, val: &'static str) -> BoxedStrategy<Case> {
    use proptest::strategy::Strategy;
    s.prop_map(move |mut c| {
        c.set(key, val);
        if key == "inject_tail" {
            // the whole history is re-executed once per injection point: no per-step snapshots
            // (the state after each injected panic is validated from its own snapshot)
            c.set("snap", 0);
        }
        c
    })
    .boxed()
}

/// all 528 bucket ranges of the 32-point domain
pub fn ranges_32() -> Vec<(i64, i64)> {
    let mut v = Vec::new();
    for a in 0..32 {
        for b in a..32 {
            v.push((a, b));
        }
    }
    v
}

/// One case per insert range: the insert followed by all 528 query ranges (C15), optionally
/// repeated at t = exp-1, exp, exp+1 (C03).
fn seg_pair_cases(prop: &str, three_times: bool) -> Vec<Case> {
    seg_pair_cases_on(prop, three_times, 0, 32, "i32", 0)
}

/// 32-bucket domains of other bucket widths and positions: one point per bucket up to 2^58 points
pub const PAIR_DOMAINS: &[(i64, i64, &str)] = &[
    (-16, 32, "i32"),
    (0, 1024, "i32"),
    (i32::MIN as i64, 1i64 << 32, "i32"),
    (0, 1i64 << 32, "u32"),
    (0, 1i64 << 33, "i64"),
    (-(1i64 << 35), 1i64 << 36, "i64"),
    (-(1i64 << 61), 1i64 << 62, "i64"),
];

/// `off`: 0 = ranges from the first point of bucket a to the first point of bucket b, 1 = to the last
/// point of bucket b
fn seg_pair_cases_on(prop: &str, three_times: bool, lo: i64, len: i64, rt: &str, off: i64) -> Vec<Case> {
    let rs = ranges_32();
    let mut cases = Vec::new();
    for (a, b) in &rs {
        let mut c = Case::new(prop, "seg");
        c.set("lo", lo).set("len", len).set("rtype", rt);
        // exp = clock + 1  (d = 2)
        c.ops.push(RawOp::new(S_INS, &[*a, 0, *b, off, 2]));
        let rounds = if three_times { 3 } else { 1 };
        for round in 0..rounds {
            if round > 0 {
                c.ops.push(RawOp::new(S_ADV, &[1]));
            }
            for (x, y) in &rs {
                c.ops.push(RawOp::new(S_QUERY, &[*x, 0, *y, off, 0]));
            }
        }
        cases.push(c);
    }
    cases
}

/// For every first range: (insert first, insert second, clear) for all 528 second ranges.
fn seg_insert_pair_cases(prop: &str) -> Vec<Case> {
    let rs = ranges_32();
    let mut cases = Vec::new();
    for (a, b) in &rs {
        let mut c = Case::new(prop, "seg");
        c.set("lo", 0).set("len", 32).set("rtype", "i32");
        for (x, y) in &rs {
            c.ops.push(RawOp::new(S_INS, &[*a, 0, *b, 0, 4]));
            c.ops.push(RawOp::new(S_INS, &[*x, 0, *y, 0, 4]));
            c.ops.push(RawOp::new(S_QUERY, &[*x, 0, *x, 0, 0]));
            c.ops.push(RawOp::new(S_CLEAR, &[0]));
        }
        cases.push(c);
    }
    cases
}

fn seg_domain_table(prop: &str, thorough: bool) -> Vec<Case> {
    let mut v = Vec::new();
    let mut push = |lo: i64, len: i64, rt: &str| {
        let mut c = Case::new(prop, "seg");
        c.set("lo", lo).set("len", len).set("rtype", rt).set("domain_battery", 1);
        v.push(c);
    };
    // lengths 1..=40 and 2^k-1, 2^k, 2^k+1
    let mut lens: Vec<i64> = (1..=40).collect();
    for k in 5..=31 {
        for d in [-1i64, 0, 1] {
            lens.push((1i64 << k) + d);
        }
    }
    lens.push(1i64 << 32);
    lens.sort();
    lens.dedup();
    for &len in &lens {
        // i32
        for lo in [i32::MIN as i64, -(len / 2), -1, 0, 1, i32::MAX as i64 - len + 1] {
            if lo >= i32::MIN as i64 && lo + len - 1 <= i32::MAX as i64 {
                push(lo, len, "i32");
            }
        }
        // u32
        for lo in [0i64, 1, u32::MAX as i64 - len + 1] {
            if lo >= 0 && lo + len - 1 <= u32::MAX as i64 {
                push(lo, len, "u32");
            }
        }
    }
    // i64 domains whose length fits in i64
    let kmax = if thorough { 62 } else { 62 };
    for k in 5..=kmax {
        for d in [-1i64, 0, 1] {
            let len = (1i64 << k) + d;
            for lo in [-(len / 2), -1, 0, 1, i64::MAX - len + 1, -(1i64 << 62)] {
                if lo.checked_add(len - 1).is_some() {
                    // keep max - min + 1 within i64
                    push(lo, len, "i64");
                }
            }
        }
    }
    // small coordinate types
    for len in (1..=40).chain([63, 64, 65, 127, 128, 129, 255, 256]) {
        for lo in [-128i64, -(len / 2), 0, 127 - len + 1] {
            if lo >= -128 && lo + len - 1 <= 127 {
                push(lo, len, "i8");
            }
        }
        for lo in [0i64, 255 - len + 1] {
            if lo >= 0 && lo + len - 1 <= 255 {
                push(lo, len, "u8");
            }
        }
    }
    for len in [16i64, 17, 255, 256, 257, 32767, 32768, 32769, 65535, 65536] {
        for lo in [-32768i64, -(len / 2), 0, 32767 - len + 1] {
            if lo >= -32768 && lo + len - 1 <= 32767 {
                push(lo, len, "i16");
            }
        }
        for lo in [0i64, 65535 - len + 1] {
            if lo >= 0 && lo + len - 1 <= 65535 {
                push(lo, len, "u16");
            }
        }
    }
    v
}

/// Structures deep enough for a root-to-leaf path of >= 33 nodes (a red-black tree needs >= 196 606
/// entries for that, and a monotone fill reaches it at exactly that size): plain ascending /
/// descending fills, and monotone fills of a gap between sparse keys, which hang such a spine below
/// an inner node so that a neighbour step from its end has to climb >= 33 links.
fn ord_deep_cases(prop: &str, family: &str, val: &str, thorough: bool) -> Vec<Case> {
    let mut sizes = vec![270_000i64, 530_000];
    if thorough {
        sizes.push(1_050_000);
    }
    let mut v = Vec::new();
    let gap = 1_200_000i64;
    for &n in &sizes {
        for shape in 0..4 {
            let mut c = Case::new(prop, family);
            c.set("coll", "tree").set("val", val).set("cap", if shape % 2 == 0 { 8 } else { 0 }).set("U", 2_000_000).set("snap", 0).set("dense", 0);
            match shape {
                0 => c.ops.push(RawOp::new(O_BULK, &[n, 0])),
                1 => c.ops.push(RawOp::new(O_BULK, &[n, 1])),
                2 => {
                    // ascending fill of 2^18 keys that leaves a wide gap after the first quarter, then
                    // an ascending run into that gap: its spine hangs below an inner node
                    c.ops.push(RawOp::new(O_BULK, &[65_535, 0, 0, 1]));
                    c.ops.push(RawOp::new(O_BULK, &[196_609, 0, 65_535 + gap, 1]));
                    c.ops.push(RawOp::new(O_BULK, &[n.min(gap - 10), 0, 65_535, 1]));
                }
                _ => {
                    // the mirror image
                    c.ops.push(RawOp::new(O_BULK, &[65_535, 1, 196_609 + gap, 1]));
                    c.ops.push(RawOp::new(O_BULK, &[196_609, 1, 0, 1]));
                    c.ops.push(RawOp::new(O_BULK, &[n.min(gap - 10), 1, 196_609 + gap - n.min(gap - 10), 1]));
                }
            }
            // a few removals at both ends and in the middle, then the end-of-case battery
            for sel in [0i64, n / 2, n - 1, 1, n / 3] {
                c.ops.push(RawOp::new(O_DEL, &[sel, 1]));
            }
            c.ops.push(RawOp::new(O_HDEL, &[n / 4]));
            v.push(c);
        }
    }
    // a big structure with a few early removals, cleared and refilled beyond its former size, used on
    for (k, (n1, n2, order)) in [(70_000i64, 140_000i64, 0i64), (70_000, 70_000, 2), (5_000, 20_000, 1), (140_000, 66_000, 2)].iter().enumerate() {
        let mut c = Case::new(prop, family);
        c.set("coll", "tree").set("val", if k == 1 { "string" } else { val }).set("cap", if k % 2 == 0 { 8 } else { 0 }).set("U", 400_000).set("snap", 0).set("dense", 0);
        c.ops.push(RawOp::new(O_BULK, &[*n1, *order]));
        for sel in [0i64, 3, 100, n1 / 2] {
            c.ops.push(RawOp::new(O_DEL, &[sel, 1]));
        }
        c.ops.push(RawOp::new(O_HDEL, &[40]));
        c.ops.push(RawOp::new(O_CLEAR, &[]));
        c.ops.push(RawOp::new(O_BULK, &[*n2, *order]));
        for sel in [0i64, n2 / 2, n2 - 1, 7, n2 / 3, n2 / 5] {
            c.ops.push(RawOp::new(O_DEL, &[sel, 1]));
            c.ops.push(RawOp::new(O_INS, &[sel + 1]));
        }
        c.ops.push(RawOp::new(O_HDEL, &[n2 / 4]));
        v.push(c);
    }
    v
}

fn key_deep_cases(prop: &str, thorough: bool, descending: bool, export: bool) -> Vec<Case> {
    let mut sizes = vec![270_000i64, 1_050_000];
    if thorough {
        sizes.push(2_100_000);
    }
    let mut v = Vec::new();
    for &n in &sizes {
        for order in 0..(if descending { 2 } else { 1 }) {
            for pattern in [0i64, 4, 5, 2] {
                let mut c = Case::new(prop, "key");
                c.set("coll", "tree").set("cap", if pattern == 0 { 8 } else { 0 }).set("U", 8).set("snap", 0);
                c.ops.push(RawOp::new(K_BULK, &[n, order, pattern]));
                c.ops.push(RawOp::new(K_ADV, &[1]));
                if pattern == 5 {
                    for pr in [0i64, n / 2 + 1, n + 1] {
                        c.ops.push(RawOp::new(K_FLE, &[pr]));
                    }
                }
                if export {
                    c.ops.push(RawOp::new(K_EXPORT, &[0]));
                }
                v.push(c);
            }
        }
    }
    // big, cleared, refilled (bigger / smaller), queried, exported
    for (k, (n1, n2, order)) in [(70_000i64, 140_000i64, 0i64), (70_000, 70_000, 2), (5_000, 20_000, 1), (140_000, 66_000, 2)].iter().enumerate() {
        let mut c = Case::new(prop, "key");
        c.set("coll", "tree").set("cap", if k % 2 == 0 { 8 } else { 0 }).set("U", 8).set("snap", 0);
        c.ops.push(RawOp::new(K_BULK, &[*n1, *order, 2]));
        c.ops.push(RawOp::new(K_ADV, &[1]));
        for pr in [0i64, n1 / 2 + 1, n1 + 1] {
            c.ops.push(RawOp::new(K_FLE, &[pr]));
        }
        c.ops.push(RawOp::new(K_CLEAR, &[0]));
        c.ops.push(RawOp::new(K_BULK, &[*n2, *order, 1]));
        c.ops.push(RawOp::new(K_ADV, &[1]));
        for pr in [0i64, n2 / 2 + 1, n2 + 1, 5] {
            c.ops.push(RawOp::new(K_FLE, &[pr]));
            c.ops.push(RawOp::new(K_GET, &[pr + 1]));
        }
        if export {
            c.ops.push(RawOp::new(K_EXPORT, &[0]));
        }
        v.push(c);
    }
    v
}

/// "Look, churn c times, look again" for every c up to a bound: a look at one key, then c cycles that
/// free and re-occupy the slot it was found in (no looks in between), then the same look again and a
/// small battery. State that a look leaves behind (last-hit caches, generation stamps, counters that
/// wrap at 2^8) meets its slot again after every possible number of slot turnovers up to 2*cmax;
/// the thorough tier adds the cycle counts around 2^15 and 2^16.
fn period_counts(thorough: bool) -> Vec<i64> {
    let mut v: Vec<i64> = (0..=300).collect();
    if thorough {
        v.extend(301..=700);
        v.extend([32_767, 32_768, 32_769, 65_535, 65_536, 65_537]);
    }
    v
}

fn key_period_cases(prop: &str, coll: &str, thorough: bool) -> Vec<Case> {
    let mut v = Vec::new();
    // (look kind, argument that aims at key 0, second argument)
    let looks: [(u8, i64, i64); 5] = [(K_GET, 1, 0), (K_FLE, 1, 0), (K_FL, 2, 0), (K_FLEBY, 1, 0), (K_FLEBY, 1, 2)];
    for c in period_counts(thorough) {
        for (li, (lk, la, lb)) in looks.iter().enumerate() {
            if prop == "C06" && *lk != K_GET {
                continue;
            }
            if (prop == "C01") && *lk == K_GET {
                continue;
            }
            for variant in 0..2 {
                if c > 700 && (variant != 0 || li > 1) {
                    continue;
                }
                let mut k = Case::new(prop, "key");
                k.set("coll", coll).set("cap", 8).set("U", if variant == 0 { 2 } else { 3 }).set("snap", 0);
                if variant == 1 {
                    // a persistent entry above: the churned entry is not the root
                    k.ops.push(RawOp::new(K_INS, &[1, 500_000]));
                }
                k.ops.push(RawOp::new(K_INS, &[0, 1]));
                k.ops.push(RawOp::new(*lk, &[*la, *lb]));
                for _ in 0..c {
                    k.ops.push(RawOp::new(K_ADV, &[1]));
                    // variant 0: another key takes over the freed slot; variant 1: the key itself comes back
                    k.ops.push(RawOp::new(K_INS, &[if variant == 0 { 1 } else { 0 }, 1]));
                }
                k.ops.push(RawOp::new(*lk, &[*la, *lb]));
                k.ops.push(RawOp::new(K_ADV, &[1]));
                k.ops.push(RawOp::new(*lk, &[*la, *lb]));
                for pr in 0..=3 {
                    k.ops.push(RawOp::new(*lk, &[pr, *lb]));
                }
                v.push(k);
            }
        }
    }
    v
}

fn ord_period_cases(prop: &str, family: &str, coll: &str, thorough: bool) -> Vec<Case> {
    let mut v = Vec::new();
    let looks: [(u8, i64, i64); 3] = [(O_GET, 1, 0), (O_HREAD, 1, 0), (O_HREAD, 1, 2)];
    for c in period_counts(thorough) {
        for (li, (lk, la, lb)) in looks.iter().enumerate() {
            for variant in 0..2 {
                if c > 700 && (variant != 0 || li > 0) {
                    continue;
                }
                let mut k = Case::new(prop, family);
                k.set("coll", coll).set("val", "u64").set("cap", 8).set("U", if variant == 0 { 2 } else { 3 }).set("snap", 0).set("dense", 0);
                if variant == 1 {
                    k.ops.push(RawOp::new(O_INS, &[1]));
                }
                k.ops.push(RawOp::new(O_INS, &[0]));
                k.ops.push(RawOp::new(*lk, &[*la, *lb]));
                k.ops.push(RawOp::new(O_DEL, &[0, 1]));
                for _ in 0..c {
                    // variant 0: another key moves into the freed slot and out again; variant 1: with a
                    // second entry present
                    let other = if variant == 0 { 1 } else { 2 };
                    k.ops.push(RawOp::new(O_INS, &[other]));
                    k.ops.push(RawOp::new(O_DEL, &[other, 1]));
                }
                k.ops.push(RawOp::new(O_INS, &[if variant == 0 { 1 } else { 2 }]));
                k.ops.push(RawOp::new(*lk, &[*la, *lb]));
                for pr in 0..=4 {
                    k.ops.push(RawOp::new(*lk, &[pr, *lb]));
                }
                v.push(k);
            }
        }
    }
    v
}

fn seg_period_cases(prop: &str, thorough: bool) -> Vec<Case> {
    let mut v = Vec::new();
    for c in period_counts(thorough) {
        for variant in 0..2 {
            if c > 700 && variant != 0 {
                continue;
            }
            let mut k = Case::new(prop, "seg");
            k.set("lo", 0).set("len", 32).set("rtype", "i32");
            let (a, b) = if variant == 0 { (5, 5) } else { (3, 17) };
            // alive at this tick only
            k.ops.push(RawOp::new(S_INS, &[a, 0, b, 0, 1]));
            k.ops.push(RawOp::new(S_QUERY, &[a, 0, b, 0, 0]));
            for _ in 0..c {
                k.ops.push(RawOp::new(S_ADV, &[1]));
                k.ops.push(RawOp::new(S_INS, &[a, 0, b, 0, 1]));
            }
            k.ops.push(RawOp::new(S_QUERY, &[a, 0, b, 0, 0]));
            k.ops.push(RawOp::new(S_ADV, &[1]));
            k.ops.push(RawOp::new(S_QUERY, &[a, 0, b, 0, 0]));
            k.ops.push(RawOp::new(S_QUERYALL, &[]));
            v.push(k);
        }
    }
    v
}

/// A sweep: three long-lived entries, then n entries that expire one per tick in insertion (= slot)
/// order; at every tick the entry that has just ended is looked up (and lazily removed), so the slots
/// are released one by one in ascending order up to the last slot of an exactly full arena; export.
fn key_sweep_cases(prop: &str, thorough: bool, export: bool) -> Vec<Case> {
    let mut v = Vec::new();
    let mut sizes = vec![12i64, 60, 252, 1020];
    if thorough {
        sizes.push(8188);
    }
    for &n in &sizes {
        for cap in [8i64, 0, n + 4] {
            for look in [K_GET, K_FLE] {
                let mut c = Case::new(prop, "key");
                c.set("coll", "tree").set("cap", cap).set("U", 8);
                c.ops.push(RawOp::new(K_BULK, &[n + 3, 3, 7]));
                for i in 0..n {
                    c.ops.push(RawOp::new(K_ADV, &[1]));
                    // probe argument = key + 1
                    c.ops.push(RawOp::new(look, &[i + 1]));
                }
                if export {
                    c.ops.push(RawOp::new(K_EXPORT, &[0]));
                }
                v.push(c);
            }
        }
    }
    v
}

fn export_ladder(prop: &str, thorough: bool) -> Vec<Case> {
    let mut sizes: Vec<i64> = (0..=64).collect();
    // 8m-1 entries fill an arena that grows in steps of 8 exactly
    sizes.extend([100, 127, 255, 1000, 1023, 4095, 10_000, 32_767, 100_000]);
    if thorough {
        sizes.push(1_000_000);
    }
    let mut v = Vec::new();
    for &n in &sizes {
        for order in 0..3 {
            for pattern in [0i64, 1, 2, 6] {
                if n > 64 && pattern == 2 && order == 1 {
                    continue;
                }
                if pattern == 6 && (n < 60 || (n + 1) % 8 != 0) {
                    continue;
                }
                for coll in ["tree", "list"] {
                    if coll == "list" && (n > 10_000 || order != 2) {
                        // list inserts are O(n) each: keep its ladder short
                        continue;
                    }
                    for lazy in [false, true] {
                        if lazy && pattern == 0 {
                            continue;
                        }
                        let mut c = Case::new(prop, "key");
                        c.set("coll", coll).set("cap", if n % 3 == 0 { 8 } else { 0 }).set("U", 8).set("snap", if n <= 10_000 { 1 } else { 0 });
                        c.ops.push(RawOp::new(K_BULK, &[n, order, pattern]));
                        if pattern != 0 {
                            c.ops.push(RawOp::new(K_ADV, &[1]));
                        }
                        if lazy {
                            // a few queries so that lazy removals happen before the export
                            for pr in [0i64, n / 2 + 1, n + 1] {
                                c.ops.push(RawOp::new(K_FLE, &[pr]));
                            }
                        }
                        c.ops.push(RawOp::new(K_EXPORT, &[0]));
                        v.push(c);
                    }
                }
            }
        }
    }
    // trees that were big and shrank: arena at its high-water mark, few entries left at export
    let mut peaks: Vec<i64> = vec![20, 100, 1000, 1044, 8 * 1024 + 20, 10_000];
    if thorough {
        peaks.extend([100_000, 128 * 1024 + 20]);
    }
    for &n in &peaks {
        for order in [0i64, 2] {
            for cap in [8i64, 0] {
                // (a) everything expires and is lazily drained, then a few fresh entries
                let mut c = Case::new(prop, "key");
                c.set("coll", "tree").set("cap", cap).set("U", 8).set("snap", if n <= 1000 { 1 } else { 0 });
                c.ops.push(RawOp::new(K_BULK, &[n, order, 3]));
                c.ops.push(RawOp::new(K_ADV, &[1]));
                c.ops.push(RawOp::new(K_DRAIN, &[(n / 8).max(8)]));
                for k in 0..3 {
                    c.ops.push(RawOp::new(K_INS, &[k * 7, 50]));
                }
                c.ops.push(RawOp::new(K_EXPORT, &[0]));
                v.push(c);
                // (b) clear and refill with a handful
                let mut c = Case::new(prop, "key");
                c.set("coll", "tree").set("cap", cap).set("U", 8).set("snap", if n <= 1000 { 1 } else { 0 });
                c.ops.push(RawOp::new(K_BULK, &[n, order, 0]));
                c.ops.push(RawOp::new(K_CLEAR, &[0]));
                c.ops.push(RawOp::new(K_BULK, &[5, 0, 0]));
                c.ops.push(RawOp::new(K_EXPORT, &[0]));
                v.push(c);
                // (c) most expire, export purges them itself
                let mut c = Case::new(prop, "key");
                c.set("coll", "tree").set("cap", cap).set("U", 8).set("snap", if n <= 1000 { 1 } else { 0 });
                c.ops.push(RawOp::new(K_BULK, &[n, order, 2]));
                c.ops.push(RawOp::new(K_ADV, &[1]));
                c.ops.push(RawOp::new(K_DRAIN, &[(n / 4).max(8)]));
                c.ops.push(RawOp::new(K_EXPORT, &[0]));
                v.push(c);
            }
        }
    }
    v
}
