//! Bounded-exhaustive exploration (SmallCheck-style generator): closes the set of reachable abstract
//! states of a small universe to a fixpoint, running the oracle battery on every transition.

use crate::case::{Case, RawOp};
use crate::run::Outcome;
use std::collections::{HashSet, VecDeque};

pub struct EnumSpec {
    pub base: Case,
    pub alphabet: Vec<RawOp>,
    /// non-mutating observation ops appended to every explored path
    pub battery: Vec<RawOp>,
    pub max_states: usize,
}

#[derive(Default, Debug, Clone)]
pub struct EnumResult {
    pub states: usize,
    pub transitions: usize,
    pub complete: bool,
    pub max_depth: usize,
}

/// `eval(case)` must compute `Outcome::state_key` for the state reached after the path (battery
/// ops must not change it). `on_case` sees every evaluated case; returning false stops the search.
pub fn enumerate(spec: &EnumSpec, eval: &mut dyn FnMut(&Case) -> Outcome, on_case: &mut dyn FnMut(&Case, &Outcome) -> bool) -> EnumResult {
    let mut res = EnumResult::default();
    let mut seen: HashSet<Vec<u8>> = HashSet::new();
    let mut queue: VecDeque<Vec<RawOp>> = VecDeque::new();
    // initial state
    let mut c0 = spec.base.clone();
    c0.ops = spec.battery.clone();
    let o0 = eval(&c0);
    if !on_case(&c0, &o0) {
        return res;
    }
    if let Some(k) = o0.state_key {
        seen.insert(k);
        queue.push_back(Vec::new());
        res.states = 1;
    }
    let mut truncated = false;
    while let Some(path) = queue.pop_front() {
        if path.len() > res.max_depth {
            res.max_depth = path.len();
        }
        for op in &spec.alphabet {
            let mut c = spec.base.clone();
            c.ops = path.clone();
            c.ops.push(*op);
            let plen = c.ops.len();
            c.ops.extend(spec.battery.iter().copied());
            let o = eval(&c);
            res.transitions += 1;
            let key = o.state_key.clone();
            let degraded = o.degraded > 0;
            if !on_case(&c, &o) {
                return res;
            }
            if degraded {
                continue;
            }
            if let Some(k) = key {
                if !seen.contains(&k) {
                    if seen.len() >= spec.max_states {
                        truncated = true;
                        continue;
                    }
                    seen.insert(k);
                    res.states += 1;
                    let mut p = c.ops;
                    p.truncate(plen);
                    queue.push_back(p);
                }
            }
        }
    }
    res.complete = !truncated;
    res
}
