#!/bin/sh
# Offline build of the verification harness against /repo's current working tree (hooks on).
set -e
cd "$(dirname "$0")/harness"
CARGO_NET_OFFLINE=true cargo build --release --offline --bin worker
echo "setup ok: $(pwd)/target/release/worker"
