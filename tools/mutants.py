"""Hand-written mutants of iTree for sensitivity testing (DESIGN.md section 5).

Each mutant: id, properties whose quick check must report it, file (relative to /repo), old text,
new text, occurrence (0-based, default 0).  A mutant must compile and pass the repository's tests.
"""

M = []


def m(mid, props, path, old, new, occ=0, note=""):
    M.append({"id": mid, "props": props, "path": path, "old": old, "new": new, "occ": occ, "note": note})


# ---- expiring-key tree -------------------------------------------------------------------------
m("M01-liveness-ge", ["C01", "C06", "C07", "C20"], "src/key/node.rs",
  "self.entity.key.expiration() > time", "self.entity.key.expiration() >= time",
  note="entry stays visible at t == expiration")
m("M02-expire-right-no-recheck", ["C01", "C20"], "src/key/tree.rs",
  "            self.delete_index(index);\n            index = self.node(n_index).right;\n",
  "            self.delete_index(index);\n            return self.node(n_index).right;\n",
  note="after a lazy removal the replacement child is returned without checking its expiry")
m("M03-first-less-equal-as-less", ["C01"], "src/key/tree.rs",
  "                Ordering::Less => {\n                    result = entity.val;\n                    index = self.expire_right(index, time);\n                },\n                _ => index = self.expire_left(index, time),",
  "                Ordering::Less | Ordering::Equal => {\n                    result = entity.val;\n                    index = self.expire_right(index, time);\n                },\n                _ => index = self.expire_left(index, time),",
  note="first_less returns the equal key")
m("M04-insert-descends-unexpired", ["C20"], "src/key/tree.rs",
  "            if key < self.node(index).entity.key {\n                index = self.expire_left(index, time);",
  "            if key < self.node(index).entity.key {\n                index = self.node(index).left;",
  note="insert compares with expired keys on its way down the left side")
m("M05-key-insert-case3-no-red-grandparent", ["C02"], "src/key/tree.rs",
  "            self.node_mut(g_index).color = Color::Red;\n            self.node_mut(u_index).color = Color::Black;",
  "            self.node_mut(u_index).color = Color::Black;",
  note="red uncle recolouring forgets the grandparent (key tree only)")
m("M34-get-compares-root-before-expiry", ["C20"], "src/key/tree.rs",
  "    fn search_value(&mut self, time: E, key: K) -> Option<V> {\n        let mut index = self.expire_root(time);",
  "    fn search_value(&mut self, time: E, key: K) -> Option<V> {\n        let mut index = self.root;",
  note="lookup hands an expired root to Ord::cmp (and returns it when equal)")
m("M46-fleby-equal-continues-left", ["C01"], "src/key/tree.rs",
  "            match f(entity.key) {\n                Ordering::Equal => return entity.val,",
  "            match f(entity.key) {\n                Ordering::Equal => {\n                    result = entity.val;\n                    index = self.expire_left(index, time);\n                },",
  note="comparator search keeps descending left after an exact match")
m("M38-get-directions-swapped", ["C06"], "src/key/tree.rs",
  "                Ordering::Less => index = self.expire_right(index, time),\n                Ordering::Greater => index = self.expire_left(index, time),\n            }\n        }\n\n        None",
  "                Ordering::Less => index = self.expire_left(index, time),\n                Ordering::Greater => index = self.expire_right(index, time),\n            }\n        }\n\n        None",
  note="the original defect D1")
m("M18-key-clear-skips-right", ["C11"], "src/key/tree.rs",
  "                if right != EMPTY_REF {\n                    self.store.put_back(right);\n                    n += 1;\n                }",
  "                let _ = right;",
  note="clear releases only left children: slots are lost")
m("M45-key-clear-keeps-root", ["C12"], "src/key/tree.rs",
  "        self.store.put_back(self.root);\n        self.root = EMPTY_REF;\n\n        let mut n = 1;",
  "        self.store.put_back(self.root);\n        let single = self.node(self.root).left == EMPTY_REF && self.node(self.root).right == EMPTY_REF;\n        if !single { self.root = EMPTY_REF; }\n\n        let mut n = 1;",
  note="clear of a single-entry tree leaves the root pointing at the released slot")
# ---- export -------------------------------------------------------------------------------------
m("M39-export-lt", ["C07"], "src/key/array.rs",
  "!self.node(i).is_not_expired(time)", "self.node(i).entity.key.expiration() < time",
  note="the original defect D2")
m("M40-export-no-recheck", ["C07"], "src/key/array.rs",
  "            while self.is_part_of_the_tree(i) && !self.node(i).is_not_expired(time) {",
  "            if self.is_part_of_the_tree(i) && !self.node(i).is_not_expired(time) {",
  note="the original defect D4")
m("M41-export-stale-parent", ["C07", "C10"], "src/key/array.rs",
  "            if parent.left != index && parent.right != index {\n                return false;\n            }\n        }\n        while",
  "            if parent.left != index && parent.right != index && index == 0 {\n                return false;\n            }\n        }\n        while",
  note="the original defect D3")
m("M36-export-capacity-arena", ["C19"], "src/key/array.rs",
  "let mut list = Vec::with_capacity(count);", "let mut list = Vec::with_capacity(count * count + 8);",
  note="quadratic reservation")
m("M36b-export-capacity-original", ["C19"], "src/key/array.rs",
  "let mut list = Vec::with_capacity(count);", "let _ = count;\n        let mut list = Vec::with_capacity(8 << height);",
  note="the original defect D5")
# ---- map tree -----------------------------------------------------------------------------------
m("M06-map-sentinel-stays-linked", ["C02"], "src/map/tree.rs",
  "                self.fix_parents_nil_child();\n", "",
  note="the temporary sentinel is never unlinked (map tree only)")
m("M12-map-no-successor-copy", ["C04", "C08"], "src/map/tree.rs",
  "            self.node_mut(index).entity = entity;\n\n            delete_index = successor_index;",
  "            let _ = entity;\n\n            delete_index = successor_index;",
  note="two-children removal drops the successor instead of the node")
m("M14-map-first-less-by-swapped", ["C08"], "src/map/tree.rs",
  "            match f(node.entity.key) {\n                Ordering::Equal => return index,\n                Ordering::Less => {\n                    result = index;\n                    index = node.right;\n                },\n                Ordering::Greater => index = node.left,",
  "            match f(node.entity.key) {\n                Ordering::Equal => return index,\n                Ordering::Greater => {\n                    result = index;\n                    index = node.right;\n                },\n                Ordering::Less => index = node.left,",
  note="comparator-driven handle search goes the wrong way")
m("M16-map-no-put-back", ["C11"], "src/map/tree.rs",
  "        self.store.put_back(delete_index);\n    }", "        let _ = delete_index;\n    }",
  note="removed slots are never released (slow leak)")
m("M20-map-clear-keeps-root", ["C12", "C04"], "src/map/tree.rs",
  "        self.store.put_back(self.root);\n        self.root = EMPTY_REF;\n\n        let mut n = 1;",
  "        self.store.put_back(self.root);\n        let single = self.node(self.root).left == EMPTY_REF && self.node(self.root).right == EMPTY_REF;\n        if !single { self.root = EMPTY_REF; }\n\n        let mut n = 1;",
  note="clear of a single-entry map leaves the root pointing at the released slot")
m("M35-map-rotate-left-no-guard", ["C10"], "src/map/tree.rs",
  "        if rt_left != EMPTY_REF {\n            self.node_mut(rt_left).parent = index;\n        }",
  "        {\n            self.node_mut(rt_left).parent = index;\n        }",
  note="rotate_left writes through EMPTY_REF")
m("M42-map-rotate-left-no-parent-fix", ["C02"], "src/map/tree.rs",
  "        if rt_left != EMPTY_REF {\n            self.node_mut(rt_left).parent = index;\n        }",
  "        let _ = rt_left;",
  note="moved subtree keeps its old parent link")
m("M19-map-pool-always-grows", ["C11"], "src/map/pool.rs",
  "        if self.unused.is_empty() {\n            self.reserve(self.unused.capacity());", "        if self.unused.len() < 2 {\n            self.reserve(self.buffer.len());",
  note="arena doubles whenever fewer than two slots are free")
m("M33-map-insert-reserves-before-descent", ["C18"], "src/map/tree.rs",
  "        let key = entity.key;\n\n        loop {\n            let p_index = index;\n            let node = self.node(index);\n            if key < node.entity.key {\n                index = node.left;\n                if index == EMPTY_REF {\n                    self.insert_as_left(entity, p_index);\n                    return;\n                }\n            } else {\n                index = node.right;\n                if index == EMPTY_REF {\n                    self.insert_as_right(entity, p_index);\n                    return;\n                }\n            }\n        }",
  "        let key = entity.key;\n        let spare = self.store.get_free_index();\n\n        loop {\n            let p_index = index;\n            let node = self.node(index);\n            if key < node.entity.key {\n                index = node.left;\n                if index == EMPTY_REF {\n                    self.store.put_back(spare);\n                    self.insert_as_left(entity, p_index);\n                    return;\n                }\n            } else {\n                index = node.right;\n                if index == EMPTY_REF {\n                    self.store.put_back(spare);\n                    self.insert_as_right(entity, p_index);\n                    return;\n                }\n            }\n        }",
  note="a slot is taken off the free list before the comparisons: a panicking Ord leaks it")
# ---- set tree -----------------------------------------------------------------------------------
m("M07-set-delete-case3-no-parent-black", ["C02"], "src/set/tree.rs",
  "            if parent.color == Color::Red {\n                parent.color = Color::Black;\n            } else {",
  "            if parent.color == Color::Red {\n            } else {",
  note="double-black repair case 3 forgets to blacken the parent (set tree only)")
m("M13-set-find-index-swapped", ["C05"], "src/set/tree.rs",
  "                Ordering::Equal => return index,\n                Ordering::Less => index = node.left,\n                Ordering::Greater => index = node.right",
  "                Ordering::Equal => return index,\n                Ordering::Less => index = node.right,\n                Ordering::Greater => index = node.left",
  note="delete by key looks in the wrong subtree")
m("M15-set-first-less-equal-returns-result", ["C08"], "src/set/tree.rs",
  "            match node.value.key().cmp(key) {\n                Ordering::Equal => return index,",
  "            match node.value.key().cmp(key) {\n                Ordering::Equal => return if node.left != EMPTY_REF { self.find_right_minimum(node.left) } else { result },",
  note="an exact match returns the strict predecessor")
m("M17-set-put-back-twice", ["C11"], "src/set/tree.rs",
  "        self.store.put_back(delete_index);\n    }", "        self.store.put_back(delete_index);\n        if delete_index % 7 == 3 { self.store.put_back(delete_index); }\n    }",
  note="some slots are released twice")
m("M37-set-index-after-right-child", ["C09"], "src/set/tree.rs",
  "        if node.right != EMPTY_REF {\n            self.find_left_minimum(node.right)", "        if node.right != EMPTY_REF {\n            node.right",
  note="successor = right child, not its leftmost descendant")
m("M44-set-no-successor-copy", ["C05"], "src/set/tree.rs",
  "            self.node_mut(index).value = value;\n\n            delete_index = successor_index;", "            let _ = value;\n\n            delete_index = successor_index;",
  note="two-children removal drops the successor's value")
m("M51-set-index-before-original", ["C09", "C10"], "src/set/tree.rs",
  "            while parent_index != EMPTY_REF {\n                let parent = self.node(parent_index);\n                if parent.left != index {\n                    break;\n                }\n                index = parent_index;\n                parent_index = parent.parent;\n            }\n            parent_index",
  "            let mut parent = self.node(parent_index);\n            while parent.left == index {\n                index = parent_index;\n                parent_index = parent.parent;\n                parent = self.node(parent_index);\n            }\n            parent_index",
  note="the original defect D6 (index_before only)")
# ---- lists --------------------------------------------------------------------------------------
m("M22-keylist-clear-keeps-buffer", ["C12", "C13"], "src/key/list.rs",
  "        self.min_exp = E::max_expiration();\n        self.buffer.clear();", "        self.min_exp = E::max_expiration();\n        self.buffer.truncate(1);",
  note="clear keeps the first entry")
m("M23-maplist-first-less-off-by-one", ["C13"], "src/map/list.rs",
  "                if index > 0 {\n                    (index - 1) as u32\n                } else {\n                    EMPTY_REF\n                }\n            }\n        }\n    }\n\n    #[inline]\n    fn first_index_less_by",
  "                if index > 0 && index < self.buffer.len() {\n                    (index - 1) as u32\n                } else if index > 0 {\n                    (index - 1).saturating_sub(1) as u32\n                } else {\n                    EMPTY_REF\n                }\n            }\n        }\n    }\n\n    #[inline]\n    fn first_index_less_by",
  note="probe above the maximum returns the second largest")
m("M24-keylist-purge-shortcut-ge", ["C13", "C20"], "src/key/list.rs",
  "        if self.min_exp > time {\n            return;", "        if self.min_exp >= time {\n            return;",
  note="entries expiring exactly now are not purged")
m("M32-keylist-insert-push-sort", ["C18"], "src/key/list.rs",
  "        let index = self\n            .buffer\n            .binary_search_by_key(&key, |e| e.key)\n            .unwrap_or_else(|index| index);\n        self.buffer.insert(index, Entity::new(key, val));\n    }\n\n    #[inline]\n    fn get_value",
  "        self.buffer.push(Entity::new(key, val));\n        self.buffer.sort_by(|a, b| a.key.cmp(&b.key));\n    }\n\n    #[inline]\n    fn get_value",
  note="insert appends then sorts: a panicking Ord leaves the new entry unsorted")
m("M48-setlist-delete-by-index-swap-remove", ["C13"], "src/set/list.rs",
  "    fn delete_by_index(&mut self, index: u32) {\n        self.buffer.remove(index as usize);", "    fn delete_by_index(&mut self, index: u32) {\n        self.buffer.swap_remove(index as usize);",
  note="order destroyed by swap_remove")
m("M52-setlist-index-after-original", ["C13", "C10"], "src/set/list.rs",
  "        let next = index as usize + 1;\n        if next < self.buffer.len() {\n            next as u32\n        } else {\n            EMPTY_REF\n        }", "        index + 1",
  note="the original defect D7 (index_after only)")
# ---- segment tree -------------------------------------------------------------------------------
m("M08-seg-expired-le", ["C03"], "src/seg/tree.rs",
  "if item.val.expiration() < self.time {", "if item.val.expiration() <= self.time {",
  note="values expiring exactly at t are dropped")
m("M09-seg-cursor-back", ["C03", "C10"], "src/seg/tree.rs",
  "                    self.i1 = i;\n", "                    self.i1 = i - 1;\n",
  note="cursor not advanced: the same item is yielded forever")
m("M10-seg-first-index-ge", ["C03"], "src/seg/tree.rs",
  "if first_index == self.i0 {", "if first_index <= self.i0 {",
  note="a value stored at several visited places is yielded at each")
m("M11-seg-skip-after-swap-remove", ["C03", "C16"], "src/seg/tree.rs",
  "                    chunk.buffer.swap_remove(i);\n                    continue", "                    chunk.buffer.swap_remove(i);\n                    i += 1;\n                    continue",
  note="the element swapped into the hole is skipped")
m("M30-seg-expired-not-removed", ["C16"], "src/seg/tree.rs",
  "                    chunk.buffer.swap_remove(i);\n                    continue", "                    i += 1;\n                    continue",
  note="expired copies are skipped but stay stored")
m("M21-seg-clear-skips-root", ["C12"], "src/seg/tree.rs",
  "for chunk in self.chunks.iter_mut() {", "for chunk in self.chunks.iter_mut().skip(1) {",
  note="clear leaves whole-domain values in place 0")
m("M25-seg-scale-plus-one", ["C14"], "src/seg/layout.rs",
  "let scale = p - Heap32::POWER;", "let scale = p - Heap32::POWER + 1;",
  note="buckets twice as wide as necessary")
m("M26-seg-ilog-len", ["C14"], "src/seg/layout.rs",
  "let p = (len - 1).ilog2() + 1;", "let p = len.ilog2() + 1;",
  note="power-of-two lengths get one bit too many")
m("M27-seg-threshold", ["C14"], "src/seg/layout.rs",
  "        if p < Heap32::POWER {\n            return None;", "        if p <= Heap32::POWER {\n            return None;",
  note="domains of 17..32 points refused")
m("M28-seg-no-whole-range-shortcut", ["C15", "C03"], "src/seg/heap.rs",
  "        if end - start == 31 {\n            return 1\n        }\n", "",
  note="whole-range place mask becomes empty")
m("M29-seg-place-mask-or", ["C15"], "src/seg/heap.rs",
  "                let pt_bit = lt_bit & rt_bit;", "                let pt_bit = lt_bit & rt_bit | (lt_bit & (pt as u64 & 1) & ((lt as u64 >> 5) & 1));",
  note="some parents absorb a single child: over-covering")
m("M47-seg-visit-mask-and", ["C03", "C15"], "src/seg/heap.rs",
  "                let pt_bit = lt_bit | rt_bit;", "                let pt_bit = (lt_bit | rt_bit) & !((pt == 5) as u64);",
  note="heap node 5 is never visited")


# ---- benign refactors: no property forbids them, every check must stay silent -------------------
B = []


def b(mid, path, old, new, occ=0, note=""):
    B.append({"id": mid, "props": [], "path": path, "old": old, "new": new, "occ": occ, "note": note, "benign": True})


for t in ["map", "set", "key"]:
    b("B1-%s-root-always-black" % t, "src/%s/tree.rs" % t,
      "        if parent.color == Color::Red {\n            self.fix_red_black_properties_after_insert(new_index, p_index);\n        }\n    }\n\n    #[inline]\n    fn insert_as_right",
      "        if parent.color == Color::Red {\n            self.fix_red_black_properties_after_insert(new_index, p_index);\n        }\n        let r = self.root;\n        self.node_mut(r).color = Color::Black;\n    }\n\n    #[inline]\n    fn insert_as_right",
      note="root recoloured black after every left insertion")
    b("B2-%s-arena-growth-x2" % t, "src/%s/pool.rs" % t,
      "            self.reserve(self.unused.capacity());", "            self.reserve(self.unused.capacity() * 2);",
      note="arena grows twice as fast (still bounded by a constant multiple of the peak)")
b("B3-key-eager-root-purge", "src/key/tree.rs",
  "    fn is_empty(&self) -> bool {\n        self.root == EMPTY_REF\n    }\n\n    #[inline(always)]\n    fn insert(&mut self, key: K, val: V, time: E) {\n        debug_assert!(key.expiration() >= time, \"The value is already expired\");",
  "    fn is_empty(&self) -> bool {\n        self.root == EMPTY_REF\n    }\n\n    #[inline(always)]\n    fn insert(&mut self, key: K, val: V, time: E) {\n        debug_assert!(key.expiration() >= time, \"The value is already expired\");\n        self.expire_root(time);",
  note="insert purges expired roots once more up front")
b("B4-seg-clear-shrinks", "src/seg/chunk.rs",
  "        self.buffer.clear();", "        self.buffer.clear();\n        self.buffer.shrink_to_fit();",
  note="clear also releases the bucket lists' memory")
