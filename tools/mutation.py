#!/usr/bin/env python3
"""Sensitivity / silence testing: apply each mutant to /repo's working tree, check that it compiles
and passes the repository's tests, run the named quick checks (must exit 1 with a VIOLATION line)
or — for benign refactors — a set of checks that must stay silent; always restore /repo.

  tools/mutation.py [--only SUBSTR] [--benign] [--all-checks]
"""
import json, os, subprocess, sys, time
sys.path.insert(0, os.path.dirname(os.path.abspath(__file__)))
import mutants

REPO = os.environ.get("MUT_REPO", "/repo")
VERIF = "/verif"


def sh(cmd, cwd=None, timeout=3600):
    r = subprocess.run(cmd, cwd=cwd, shell=isinstance(cmd, str), stdout=subprocess.PIPE, stderr=subprocess.STDOUT, text=True, timeout=timeout)
    return r.returncode, r.stdout


def clean():
    code, out = sh("git status --porcelain", cwd=REPO)
    return out.strip() == ""


def apply(mu):
    path = os.path.join(REPO, mu["path"])
    s = open(path).read()
    idx = -1
    pos = 0
    for _ in range(mu["occ"] + 1):
        idx = s.find(mu["old"], pos)
        if idx < 0:
            return False
        pos = idx + 1
    s = s[:idx] + mu["new"] + s[idx + len(mu["old"]):]
    open(path, "w").write(s)
    return True


def main():
    only = None
    benign = "--benign" in sys.argv
    all_checks = "--all-checks" in sys.argv
    if "--only" in sys.argv:
        only = sys.argv[sys.argv.index("--only") + 1]
    if not clean():
        print("/repo working tree is not clean; refusing")
        sys.exit(2)
    todo = mutants.B if benign else mutants.M
    results = []
    for mu in todo:
        if only and only not in mu["id"]:
            continue
        t0 = time.time()
        row = {"id": mu["id"], "note": mu["note"], "expected": mu["props"]}
        try:
            if not apply(mu):
                row["status"] = "PATTERN-NOT-FOUND"
                results.append(row)
                print(row)
                continue
            code, out = sh("cargo test --workspace --no-fail-fast --offline 2>&1 | grep -E '^test result|error(\\[|:)' ", cwd=REPO)
            passed = sum(int(l.split()[3]) for l in out.splitlines() if l.startswith("test result"))
            failed = sum(int(l.split()[5]) for l in out.splitlines() if l.startswith("test result"))
            row["repo_tests"] = "%d passed %d failed" % (passed, failed)
            if "error" in out or passed != 59 or failed != 0:
                row["status"] = "MUTANT-INVALID (does not compile or fails the repo tests)"
                row["detail"] = out[-400:]
                results.append(row)
                print(row)
                continue
            checks = mu["props"] if not (benign or all_checks) else ["C%02d" % i for i in range(1, 21)]
            if os.environ.get("MUT_CHECKS"):
                # development: a subset of the checks
                checks = os.environ["MUT_CHECKS"].split(",")
            row["checks"] = {}
            for pid in checks:
                c0 = time.time()
                code, out = sh(["./check", pid], cwd=VERIF, timeout=3000)
                viol = [l for l in out.splitlines() if l.startswith("VIOLATION")]
                first = [l for l in out.splitlines() if l.startswith("violation ")]
                row["checks"][pid] = {"exit": code, "violation": bool(viol), "s": round(time.time() - c0, 1), "first": (first[0][:200] if first else out.strip().splitlines()[-1][:200] if out.strip() else "")}
            if benign:
                bad = [p for p, r in row["checks"].items() if r["exit"] != 0]
                row["status"] = "SILENT" if not bad else "FALSE-ALARM-OR-BROKEN " + ",".join(bad)
            else:
                missed = [p for p in mu["props"] if not (row["checks"][p]["exit"] == 1 and row["checks"][p]["violation"])]
                row["status"] = "DETECTED" if not missed else "MISSED " + ",".join(missed)
        finally:
            sh("git checkout -- .", cwd=REPO)
        row["wall_s"] = round(time.time() - t0, 1)
        results.append(row)
        print(json.dumps(row), flush=True)
    assert clean()
    out = os.environ.get("MUT_OUT") or os.path.join(VERIF, "tools", "mutation_results_%s.json" % ("benign" if benign else "mutants"))
    if not only or os.environ.get("MUT_OUT"):
        json.dump(results, open(out, "w"), indent=1)
    print("---- summary")
    for r in results:
        print("%-45s %s" % (r["id"], r["status"]))


main()
