#!/usr/bin/env python3
"""Regenerates MANIFEST.json from the table below (kept in one place so it stays valid)."""
import json, subprocess

P = {
 "C01": ("model-based stateful PBT (proptest histories vs naive reference) + bounded-exhaustive state closure + bounded-exhaustive histories", "3.C01",
         "KeyExpTree predecessor queries agree with a naive reference on every generated history (tiny coincidence-rich universes, medium and large trees) and on every transition of a small universe closed to a state fixpoint."),
 "C02": ("invariant checking after every step of generated histories (snapshot hook) + bounded-exhaustive shape closure", "3.C02",
         "Red-black validity predicate evaluated on a structural snapshot after every public operation of every generated history on all three tree copies; all reachable shapes over small key universes are closed to a fixpoint."),
 "C03": ("model-based stateful PBT over domain table + complete 528x528x3 pair table", "3.C03",
         "Range-query multisets agree with the bucket-level reference on generated histories over many domains, and on every (insert range, query range) pair of the 32-point domain at t = exp-1, exp, exp+1."),
 "C04": ("model-based stateful PBT vs std BTreeMap + bounded-exhaustive state closure with full lookup sweeps", "3.C04",
         "MapTree lookups / emptiness agree with std::collections::BTreeMap on every generated history (integer and String values, all hints) and at every state of the closed small universe."),
 "C05": ("model-based stateful PBT vs std BTreeMap + bounded-exhaustive state closure with full lookup sweeps", "3.C05",
         "SetTree lookups return the stored value (key and payload) exactly when present, on generated histories and at every state of the closed small universe; payload != key so mix-ups are visible."),
 "C06": ("model-based stateful PBT + bounded-exhaustive state closure with lookup of every key + bounded-exhaustive histories", "3.C06",
         "KeyExpTree::get_value agrees with the reference for stored-live, stored-expired and never-stored keys wherever the entry sits."),
 "C07": ("model-based + differential (tree vs list) PBT + bounded-exhaustive closure with export at every t", "3.C07",
         "Ordered export equals the reference's live entries in key order, and tree == list, for generated histories ending in an export at a time chosen relative to the stored expirations."),
 "C08": ("model-based stateful PBT + bounded-exhaustive closure x every probe x {read, write, delete}", "3.C08",
         "Predecessor handles (key and comparator form) designate the reference predecessor for read, write and delete on map and set trees."),
 "C09": ("model-based stateful PBT + bounded-exhaustive closure x every entry x both directions", "3.C09",
         "SetTree neighbour steps agree with the reference order and return the empty sentinel at both ends; full walks enumerate everything once and terminate."),
 "C10": ("crash-oracle PBT over all seven collections in a checked build (ub-checks, debug assertions, overflow checks), per-shard processes + journal triage", "3.C10",
         "No generated in-contract history on any of the seven collections panics, aborts in unchecked indexing, overflows, exceeds the callback budget or hangs."),
 "C11": ("invariant checking (arena accounting) after every step of long churn histories + state closure", "3.C11",
         "Sentinel / tree / free-list partition the arena after every operation, clear frees everything, and the arena stays within a constant multiple of the peak population."),
 "C12": ("differential PBT against a fresh twin driven by the same suffix + bounded-exhaustive histories (every sequence of 6-8 operations over 1-3 keys)", "3.C12",
         "After clear every observation equals that of a freshly constructed twin, for all seven collections, including restarted clocks."),
 "C13": ("model-based stateful PBT on the list variants + bounded-exhaustive closure + bounded-exhaustive histories", "3.C13",
         "KeyExpList / MapList / SetList give the reference answers, neighbour steps past either end give the empty sentinel, and the min-expiration shortcut never shows an expired or hides a live entry."),
 "C14": ("complete domain tables + random domains, black-box bucket identification vs reference layout", "3.C14",
         "new() is Some exactly for >16 points; point values co-locate exactly as the reference 32-bucket power-of-two layout says, at both sides of every bucket edge; storage backs every reachable place."),
 "C15": ("complete enumeration of the 528 x 528 finite space (on the 32-point domain and on seven 32-bucket domains of other bucket widths) + generated insert sequences", "3.C15",
         "All ordered pairs of bucket ranges: stored-at places meet visited places iff the ranges overlap; places tile the range, <=8 copies - on the 32-point domain and on 32-bucket domains with up to 2^57 points per bucket."),
 "C16": ("invariant checking on generated histories via copy-count hook", "3.C16",
         "After every fully consumed query no expired copy remains in any scanned list; after whole-domain queries none remains anywhere and copies <= 8 x unexpired values."),
 "C17": ("stateful PBT with held handles re-checked after every insertion + state closure x every insertable key", "3.C17",
         "Handles taken for every stored entry still designate the same entry (value and first_index_less agreement) after every later insertion until the next delete/clear."),
 "C18": ("fault enumeration: a panic injected at every user-callback index of every operation of generated histories", "3.C18",
         "After a panic injected into the j-th callback of the i-th operation (all i, j per history; plus compounding retries) structure and arena are valid and contents equal the reference before or after the operation."),
 "C19": ("size ladder (fixed table) + generated trees, capacity oracle", "3.C19",
         "Capacity of the exported vector stays within 8*(stored + hint) + 64 for sizes 0..64, 100 … 100 000 (1 000 000 thorough), three insertion orders, three expiry patterns, tree and list."),
 "C20": ("argument-recording key/closure types on generated histories + state closure", "3.C20",
         "Every key handed to Ord::cmp / eq / the comparator closure during an operation at time t is the operation's own key or has expiration > t."),
}

def main():
    commits = subprocess.run(["git", "-C", "/repo", "log", "--format=%h", "--grep=verif hooks"], capture_output=True, text=True).stdout.split()
    checks = []
    for pid in sorted(P):
        tech, ref, text = P[pid]
        checks.append({
            "property_id": pid,
            "quick_cmd": "./check %s" % pid,
            "thorough_cmd": "./check %s --tier thorough" % pid,
            "evidence_file": "/verif/evidence/%s.json" % pid,
            "replay_cmd_template": "./check %s --replay {path}" % pid,
            "engine": "itree-verif harness (proptest 1.11 hand-driven + bounded-exhaustive state closure + bounded-exhaustive histories + fixed tables), sharded by ./check; two builds of the worker: checked (debug assertions, overflow checks) and optimised without them",
            "level_claimed": {"category": "fault_enumeration" if pid == "C18" else "exploration", "text": text + " Held on everything explored; generated-input search never establishes absence.", "design_ref": "DESIGN.md section " + ref},
            "level_note": "Trusted base: the reference models and validity predicates in /verif/harness/src (written from the property text), the read-only snapshot hooks (feature verif-hooks), rustc's debug-assertion / unsafe-precondition checks as crash oracle (a quarter of every job table is also run by a worker built without debug assertions, as a user's release build would be). Input domain = in-contract histories by construction (model-directed interpreters).",
            "technique": tech,
        })
    m = {
        "version": 1,
        "setup_cmd": "./setup.sh",
        "hooks": {
            "guard": "cargo feature verif-hooks",
            "enable": "harness/Cargo.toml depends on i_tree = { path = \"/repo\", features = [\"verif-hooks\"] }; every ./check run rebuilds it from /repo's working tree",
            "baseline_off_cmd": "cd /repo && cargo test --workspace --no-fail-fast --offline",
            "source_commits": commits,
            "add_only": True,
        },
        "engines": [
            {"name": "itree-verif worker", "path": "/verif/harness", "serves_properties": sorted(P), "kind_free_text": "Rust: proptest strategies over raw op lists, model-directed interpreters with oracles, bounded-exhaustive enumerator, in-process shrinking (proptest ValueTree + ddmin)"},
            {"name": "check", "path": "/verif/check", "serves_properties": sorted(P), "kind_free_text": "python3 driver: build, corpus replay, process-per-shard execution, journal-based crash triage, cross-process ddmin, evidence, exit codes"},
        ],
        "checks": checks,
        "notes": "Exit 0 = held on everything explored, 1 = VIOLATION line printed, 2 = inconclusive / infrastructure (never a violation). VERIF_SEED seeds proptest's ChaCha RNG per (property, job, shard). Fixed defects are listed in known_findings.txt (fixed: lines suppress nothing).",
        "not_applicable": [],
    }
    json.dump(m, open("/verif/MANIFEST.json", "w"), indent=1)
    print("MANIFEST.json written with", len(checks), "checks")

main()
