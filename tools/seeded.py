#!/usr/bin/env python3
"""Seeded changes (written by independent sub-agents from the property text only).

  tools/seeded.py verify <name> <prop> <worktree>    confirm the candidate in a fresh scratch worktree:
        patch applies to /repo HEAD, the 59 tests pass with it, the demo fails with it and passes
        without it; then store it as /verif/seeded/<name>/{patch.diff, demo_*.rs, meta.json}
  tools/seeded.py run [<name> …] [--all-checks]      apply each stored patch to /repo, run the quick
        check(s) of the property it breaks, undo; record the outcome in meta.json
"""
import glob, json, os, shutil, subprocess, sys, time

REPO = "/repo"
VERIF = "/verif"
SEEDED = os.path.join(VERIF, "seeded")


def sh(cmd, cwd=None, timeout=3600):
    r = subprocess.run(cmd, cwd=cwd, shell=isinstance(cmd, str), stdout=subprocess.PIPE, stderr=subprocess.STDOUT, text=True, timeout=timeout)
    return r.returncode, r.stdout


def tests(cwd, extra=""):
    code, out = sh("cargo test --workspace --no-fail-fast --offline %s 2>&1" % extra, cwd=cwd)
    res = [l for l in out.splitlines() if l.startswith("test result")]
    passed = sum(int(l.split()[3]) for l in res)
    failed = sum(int(l.split()[5]) for l in res)
    # a test binary killed by a signal (abort in unchecked indexing, SIGSEGV) prints no result line
    failed += sum(1 for l in out.splitlines() if l.startswith("error: test failed") and "signal" in out and "test result: FAILED" not in out)
    comp_err = "error: could not compile" in out or "error[E" in out
    return passed, failed, comp_err, out


def verify(name, prop, wt):
    patch = os.path.join(wt, "patch.diff")
    demos = glob.glob(os.path.join(wt, "tests", "demo_*.rs"))
    if not os.path.exists(patch) or not demos:
        print("missing patch.diff or tests/demo_*.rs in", wt)
        return 2
    scratch = "/tmp/seedverify-%s" % name
    sh(["git", "-C", REPO, "worktree", "remove", "--force", scratch])
    shutil.rmtree(scratch, ignore_errors=True)
    code, out = sh(["git", "-C", REPO, "worktree", "add", "--detach", scratch, "HEAD"])
    assert code == 0, out
    ran = []
    try:
        # 1. baseline + demo without the change
        for d in demos:
            shutil.copy(d, os.path.join(scratch, "tests", os.path.basename(d)))
        p0, f0, e0, out0 = tests(scratch)
        ran.append("without the change: cargo test --workspace --no-fail-fast --offline -> %d passed, %d failed" % (p0, f0))
        if e0 or f0 != 0:
            print("demo does not pass on the original code:", out0[-1500:])
            return 1
        ndemo = p0 - 59
        # 2. apply
        code, out = sh(["git", "apply", patch], cwd=scratch)
        if code != 0:
            print("patch does not apply:", out)
            return 1
        touched = sh("git diff --name-only", cwd=scratch)[1].split()
        bad = [t for t in touched if not t.startswith("src/") or t.endswith("verif.rs")]
        if bad:
            print("patch touches files it must not:", bad)
            return 1
        p1, f1, e1, out1 = tests(scratch)
        ran.append("with the change:    cargo test --workspace --no-fail-fast --offline -> %d passed, %d failed" % (p1, f1))
        if e1:
            print("does not compile with the change", out1[-1500:])
            return 1
        # existing tests must all pass: run them without the demo
        for d in demos:
            os.remove(os.path.join(scratch, "tests", os.path.basename(d)))
        p2, f2, e2, out2 = tests(scratch)
        ran.append("with the change, existing suite only -> %d passed, %d failed" % (p2, f2))
        if p2 != 59 or f2 != 0:
            print("existing tests do not all pass with the change:", p2, f2, out2[-1500:])
            return 1
        if f1 == 0:
            print("demo does not fail with the change")
            return 1
        # hooks still build
        code, out = sh("cargo build --offline --features verif-hooks 2>&1 | tail -3", cwd=scratch)
        ran.append("cargo build --features verif-hooks -> exit %d" % code)
        dst = os.path.join(SEEDED, name)
        os.makedirs(dst, exist_ok=True)
        shutil.copy(patch, os.path.join(dst, "patch.diff"))
        for d in demos:
            shutil.copy(d, os.path.join(dst, os.path.basename(d)))
        meta = {"name": name, "breaks_property": prop, "source": "independent sub-agent given only the property text and a scratch worktree",
                "files_touched": touched, "demo": [os.path.basename(d) for d in demos], "demo_tests": ndemo,
                "needs_to_manifest": "", "what": "", "confirmed": ran, "checks": {}}
        mp = os.path.join(dst, "meta.json")
        if os.path.exists(mp):
            old = json.load(open(mp))
            for k in ("needs_to_manifest", "what", "checks"):
                meta[k] = old.get(k, meta[k])
        json.dump(meta, open(mp, "w"), indent=1)
        print("stored", dst)
        for r in ran:
            print("  ", r)
        return 0
    finally:
        sh(["git", "-C", REPO, "worktree", "remove", "--force", scratch])
        shutil.rmtree(scratch, ignore_errors=True)


def run(names, all_checks):
    global REPO
    env_extra = {}
    if "--scratch" in sys.argv:
        # development mode: apply to the scratch worktree /tmp/repo-clean and use the scratch harness
        # copy /tmp/hw (whose Cargo.toml points there); evidence goes to /tmp/ev
        REPO = "/tmp/repo-clean"
        os.makedirs("/tmp/ev", exist_ok=True)
        env_extra = {"VERIF_HARNESS_DIR": "/tmp/hw", "VERIF_EVIDENCE_DIR": "/tmp/ev"}
        os.environ.update(env_extra)
    code, out = sh("git status --porcelain", cwd=REPO)
    if out.strip():
        print("/repo working tree not clean; refusing")
        return 2
    if not names:
        names = sorted(os.listdir(SEEDED))
    summary = []
    for name in names:
        dst = os.path.join(SEEDED, name)
        mp = os.path.join(dst, "meta.json")
        if not os.path.exists(mp):
            continue
        meta = json.load(open(mp))
        code, out = sh(["git", "-C", REPO, "apply", os.path.join(dst, "patch.diff")])
        if code != 0:
            print(name, "patch does not apply:", out)
            summary.append((name, "PATCH-DOES-NOT-APPLY"))
            continue
        try:
            props = ["C%02d" % i for i in range(1, 21)] if all_checks else [meta["breaks_property"]]
            for pid in props:
                t0 = time.time()
                code, out = sh(["./check", pid], cwd=VERIF, timeout=3000)
                viol = [l for l in out.splitlines() if l.startswith("VIOLATION")]
                first = [l for l in out.splitlines() if l.startswith("violation ")]
                meta["checks"][pid] = {"cmd": "./check %s (quick)" % pid, "exit": code, "violation_line": viol[0] if viol else None,
                                       "first": first[0][:300] if first else (out.strip().splitlines()[-1][:300] if out.strip() else ""), "wall_s": round(time.time() - t0, 1)}
        finally:
            sh("git checkout -- .", cwd=REPO)
        own = meta["checks"].get(meta["breaks_property"], {})
        others = [p for p, r in meta["checks"].items() if r["exit"] == 1 and p != meta["breaks_property"]]
        status = "DETECTED" if own.get("exit") == 1 and own.get("violation_line") else "MISSED (exit %s)" % own.get("exit")
        meta["status"] = status
        meta["also_reported_by"] = others
        json.dump(meta, open(mp, "w"), indent=1)
        summary.append((name, status + ((" also: " + ",".join(others)) if others else "")))
        print(name, status, own.get("first", "")[:200], flush=True)
    assert sh("git status --porcelain", cwd=REPO)[1].strip() == ""
    print("---- summary")
    for n, s in summary:
        print("%-30s %s" % (n, s))
    return 0


if __name__ == "__main__":
    if len(sys.argv) >= 5 and sys.argv[1] == "verify":
        sys.exit(verify(sys.argv[2], sys.argv[3], sys.argv[4]))
    elif len(sys.argv) >= 2 and sys.argv[1] == "run":
        args = [a for a in sys.argv[2:] if not a.startswith("--")]
        sys.exit(run(args, "--all-checks" in sys.argv))
    else:
        print(__doc__)
        sys.exit(2)
