//! Case = family + configuration + raw operation list, with a plain-text (de)serialisation.
//!
//! Raw operations carry *selectors*; the interpreters resolve them against the reference model so
//! that every op list (generated, shrunk, ddmin-reduced, fuzz-decoded) is an in-contract history.

use std::fmt::Write as _;

pub const NARGS: usize = 5;

#[derive(Clone, Copy, Debug, PartialEq, Eq, Hash)]
pub struct RawOp {
    pub kind: u8,
    pub args: [i64; NARGS],
}

impl RawOp {
    pub fn new(kind: u8, args: &[i64]) -> Self {
        let mut a = [0i64; NARGS];
        for (i, v) in args.iter().enumerate().take(NARGS) {
            a[i] = *v;
        }
        RawOp { kind, args: a }
    }
}

#[derive(Clone, Debug, PartialEq, Eq)]
pub struct Case {
    pub prop: String,
    pub family: String,
    /// configuration: ordered key=value pairs (all integers or short identifiers)
    pub cfg: Vec<(String, String)>,
    pub ops: Vec<RawOp>,
}

impl Case {
    pub fn new(prop: &str, family: &str) -> Self {
        Case { prop: prop.to_string(), family: family.to_string(), cfg: Vec::new(), ops: Vec::new() }
    }

    pub fn set(&mut self, key: &str, val: impl ToString) -> &mut Self {
        let v = val.to_string();
        if let Some(e) = self.cfg.iter_mut().find(|(k, _)| k == key) {
            e.1 = v;
        } else {
            self.cfg.push((key.to_string(), v));
        }
        self
    }

    pub fn with(mut self, key: &str, val: impl ToString) -> Self {
        self.set(key, val);
        self
    }

    pub fn get(&self, key: &str) -> Option<&str> {
        self.cfg.iter().find(|(k, _)| k == key).map(|(_, v)| v.as_str())
    }

    pub fn get_i64(&self, key: &str, default: i64) -> i64 {
        self.get(key).and_then(|v| v.parse::<i64>().ok()).unwrap_or(default)
    }

    pub fn get_str<'a>(&'a self, key: &str, default: &'a str) -> &'a str {
        self.get(key).unwrap_or(default)
    }

    /// 64-bit FNV-1a over family, cfg and ops (the property id is *not* part of the identity).
    pub fn hash64(&self) -> u64 {
        let mut h = Fnv::new();
        h.bytes(self.family.as_bytes());
        for (k, v) in &self.cfg {
            h.bytes(k.as_bytes());
            h.bytes(b"=");
            h.bytes(v.as_bytes());
            h.bytes(b";");
        }
        for op in &self.ops {
            h.bytes(&[op.kind]);
            for a in op.args {
                h.bytes(&a.to_le_bytes());
            }
        }
        h.finish()
    }

    pub fn to_text(&self, names: &[&str]) -> String {
        let mut s = String::new();
        let _ = writeln!(s, "# itree-verif case v1");
        let _ = writeln!(s, "prop {}", self.prop);
        let _ = writeln!(s, "family {}", self.family);
        let mut c = String::new();
        for (k, v) in &self.cfg {
            let _ = write!(c, " {}={}", k, v);
        }
        let _ = writeln!(s, "cfg{}", c);
        for op in &self.ops {
            let name = names.get(op.kind as usize).copied().unwrap_or("?");
            let mut last = NARGS;
            while last > 0 && op.args[last - 1] == 0 {
                last -= 1;
            }
            let mut a = String::new();
            for v in &op.args[..last] {
                let _ = write!(a, " {}", v);
            }
            let _ = writeln!(s, "op {}{}", name, a);
        }
        s
    }

    pub fn from_text(text: &str, names_of: &dyn Fn(&str) -> Option<&'static [&'static str]>) -> Result<Case, String> {
        let mut case = Case::new("", "");
        let mut names: Option<&'static [&'static str]> = None;
        for (ln, line) in text.lines().enumerate() {
            let line = line.trim();
            if line.is_empty() || line.starts_with('#') {
                continue;
            }
            let mut it = line.split_whitespace();
            let head = it.next().unwrap();
            match head {
                "prop" => case.prop = it.next().unwrap_or("").to_string(),
                "family" => {
                    case.family = it.next().unwrap_or("").to_string();
                    names = names_of(&case.family);
                    if names.is_none() {
                        return Err(format!("line {}: unknown family {}", ln + 1, case.family));
                    }
                }
                "cfg" => {
                    for kv in it {
                        if let Some((k, v)) = kv.split_once('=') {
                            case.set(k, v);
                        }
                    }
                }
                "op" => {
                    let names = names.ok_or_else(|| format!("line {}: op before family", ln + 1))?;
                    let name = it.next().ok_or_else(|| format!("line {}: op without name", ln + 1))?;
                    let kind = names
                        .iter()
                        .position(|n| *n == name)
                        .ok_or_else(|| format!("line {}: unknown op {}", ln + 1, name))?;
                    let mut args = [0i64; NARGS];
                    for (i, a) in it.enumerate() {
                        if i >= NARGS {
                            break;
                        }
                        args[i] = a.parse::<i64>().map_err(|e| format!("line {}: {}", ln + 1, e))?;
                    }
                    case.ops.push(RawOp { kind: kind as u8, args });
                }
                _ => return Err(format!("line {}: unknown directive {}", ln + 1, head)),
            }
        }
        if case.family.is_empty() {
            return Err("no family line".to_string());
        }
        Ok(case)
    }
}

pub struct Fnv(u64);

impl Fnv {
    pub fn new() -> Self {
        Fnv(0xcbf29ce484222325)
    }
    pub fn bytes(&mut self, b: &[u8]) {
        for x in b {
            self.0 ^= *x as u64;
            self.0 = self.0.wrapping_mul(0x100000001b3);
        }
    }
    pub fn u64(&mut self, v: u64) {
        self.bytes(&v.to_le_bytes());
    }
    pub fn finish(&self) -> u64 {
        self.0
    }
}

impl Default for Fnv {
    fn default() -> Self {
        Self::new()
    }
}

/// splitmix64, used only to derive per-shard seeds from VERIF_SEED (never inside a property).
pub fn splitmix(mut x: u64) -> u64 {
    x = x.wrapping_add(0x9E3779B97F4A7C15);
    let mut z = x;
    z = (z ^ (z >> 30)).wrapping_mul(0xBF58476D1CE4E5B9);
    z = (z ^ (z >> 27)).wrapping_mul(0x94D049BB133111EB);
    z ^ (z >> 31)
}
