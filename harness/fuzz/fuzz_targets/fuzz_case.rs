#![no_main]
//! Coverage-guided target: bytes -> Case (decode.rs) -> the same interpreters and oracles as the
//! proptest search.  ITREE_FUZZ_FAMILY = key | map | set | seg, ITREE_FUZZ_PROP = Cxx select the
//! operation language and the observed property; on an oracle failure the case text is written to
//! ITREE_FUZZ_OUT and the process aborts so that libFuzzer keeps the input.

use itree_verif::decode::decode;
use itree_verif::props::{eval_case, names_of, EvalOpts};
use libfuzzer_sys::fuzz_target;
use std::sync::OnceLock;

struct Cfg {
    family: String,
    prop: String,
    out: String,
}

static CFG: OnceLock<Cfg> = OnceLock::new();

fn cfg() -> &'static Cfg {
    CFG.get_or_init(|| {
        itree_verif::run::install_panic_hook();
        Cfg {
            family: std::env::var("ITREE_FUZZ_FAMILY").unwrap_or_else(|_| "key".into()),
            prop: std::env::var("ITREE_FUZZ_PROP").unwrap_or_else(|_| "C10".into()),
            out: std::env::var("ITREE_FUZZ_OUT").unwrap_or_else(|_| ".".into()),
        }
    })
}

fuzz_target!(|data: &[u8]| {
    let c = cfg();
    let case = decode(&c.family, &c.prop, data);
    let o = eval_case(&case, EvalOpts::default());
    if let Some(f) = o.failure {
        let text = case.to_text(names_of(&case.family).unwrap_or(&[]));
        let path = format!("{}/fuzz-fail-{:016x}.case", c.out, case.hash64());
        let _ = std::fs::write(&path, format!("{}# failure: property C{:02} site={} at op #{}\n# {}\n", text, f.prop, f.site, f.op_index, f.msg.replace('\n', " ")));
        eprintln!("ORACLE-FAILURE property=C{:02} site={} case={}", f.prop, f.site, path);
        std::process::abort();
    }
});
