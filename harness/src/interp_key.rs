//! Model-directed interpreter for the expiring-key collections (KeyExpTree, KeyExpList).
//!
//! Properties with oracles in here: C01 C02 C06 C07 C10 C11 C12 C13 C18 C19 C20.

use crate::case::{Case, RawOp};
use crate::instr::{xkey_by, XKey};
use crate::run::{budget_for, lib_call, CallErr, Outcome, RunCfg};
use crate::valid::{valid_arena, valid_rb, walk, TreeView};
use i_tree::key::array::IntoArray;
use i_tree::key::exp::KeyExpCollection;
use i_tree::key::list::KeyExpList;
use i_tree::key::tree::KeyExpTree;
use i_tree::verif::VerifSnapshot;
use i_tree::EMPTY_REF;

pub const KEY_OPS: &[&str] = &["ins", "fl", "fle", "fleby", "get", "adv", "clear", "isempty", "export", "bulk", "drain", "run"];
pub const K_INS: u8 = 0;
pub const K_FL: u8 = 1;
pub const K_FLE: u8 = 2;
pub const K_FLEBY: u8 = 3;
pub const K_GET: u8 = 4;
pub const K_ADV: u8 = 5;
pub const K_CLEAR: u8 = 6;
pub const K_ISEMPTY: u8 = 7;
pub const K_EXPORT: u8 = 8;
pub const K_BULK: u8 = 9;
/// `drain n`: n predecessor queries at evenly spaced probes (each with the usual oracle), so that
/// lazy expiry physically removes most of what has expired
pub const K_DRAIN: u8 = 10;
/// `run start len dir d`: a monotone run of insertions with expiration clock + d
pub const K_RUN: u8 = 11;

pub const DEFAULT_VAL: u64 = u64::MAX;

pub trait KeyColl: KeyExpCollection<XKey, i32, u64> + IntoArray<i32, u64> + Sized {
    const IS_TREE: bool;
    const NAME: &'static str;
    fn make(cap: usize) -> Self;
    fn snap(&self) -> Option<VerifSnapshot>;
    fn key_at(&self, slot: u32) -> XKey;
    fn val_at(&self, slot: u32) -> u64;
    fn entries(&self) -> Vec<(XKey, u64)>;
    /// the export and the capacity of the vector the library returned
    fn export(self, t: i32) -> (Vec<u64>, usize) {
        let v = self.into_ordered_vec(t);
        let c = v.capacity();
        (v, c)
    }
}

/// 160-byte plain value (`Copy`): every word is derived from the serial number, so a torn or mixed-up
/// copy is visible; implementations may treat wide values differently from narrow ones
#[derive(Clone, Copy, Debug, PartialEq)]
pub struct KBig(pub [u64; 20]);

impl KBig {
    pub fn of(s: u64) -> Self {
        let mut a = [0u64; 20];
        for (i, x) in a.iter_mut().enumerate() {
            *x = s.rotate_left(3 * i as u32) ^ (i as u64).wrapping_mul(0x9E37_79B9_7F4A_7C15);
        }
        a[0] = s;
        KBig(a)
    }
    pub fn serial(&self) -> u64 {
        if *self == KBig::of(self.0[0]) {
            self.0[0]
        } else {
            0xBAD0_BAD0_BAD0_BAD0
        }
    }
}

/// the expiring-key collections instantiated with `KBig` values behind the `u64` interface the
/// interpreter speaks
pub struct WideVal<T>(pub T);

macro_rules! wide_val {
    ($t:ident, $is_tree:expr, $name:expr) => {
        impl KeyExpCollection<XKey, i32, u64> for WideVal<$t<XKey, i32, KBig>> {
            fn is_empty(&self) -> bool {
                self.0.is_empty()
            }
            fn insert(&mut self, key: XKey, val: u64, time: i32) {
                self.0.insert(key, KBig::of(val), time)
            }
            fn get_value(&mut self, time: i32, key: XKey) -> Option<u64> {
                self.0.get_value(time, key).map(|v| v.serial())
            }
            fn first_less(&mut self, time: i32, default: u64, key: XKey) -> u64 {
                self.0.first_less(time, KBig::of(default), key).serial()
            }
            fn first_less_or_equal(&mut self, time: i32, default: u64, key: XKey) -> u64 {
                self.0.first_less_or_equal(time, KBig::of(default), key).serial()
            }
            fn first_less_or_equal_by<F>(&mut self, time: i32, default: u64, f: F) -> u64
            where
                F: Fn(XKey) -> std::cmp::Ordering,
            {
                self.0.first_less_or_equal_by(time, KBig::of(default), f).serial()
            }
            fn clear(&mut self) {
                self.0.clear()
            }
        }
        impl IntoArray<i32, u64> for WideVal<$t<XKey, i32, KBig>> {
            fn into_ordered_vec(self, time: i32) -> Vec<u64> {
                self.0.into_ordered_vec(time).iter().map(|v| v.serial()).collect()
            }
        }
    };
}
wide_val!(KeyExpTree, true, "KeyExpTree<KBig>");
wide_val!(KeyExpList, false, "KeyExpList<KBig>");

impl KeyColl for WideVal<KeyExpTree<XKey, i32, KBig>> {
    const IS_TREE: bool = true;
    const NAME: &'static str = "KeyExpTree (160-byte values)";
    fn make(cap: usize) -> Self {
        WideVal(KeyExpTree::new(cap))
    }
    fn snap(&self) -> Option<VerifSnapshot> {
        Some(self.0.verif_snapshot())
    }
    fn key_at(&self, slot: u32) -> XKey {
        self.0.verif_key_at(slot)
    }
    fn val_at(&self, slot: u32) -> u64 {
        self.0.verif_val_at(slot).serial()
    }
    fn entries(&self) -> Vec<(XKey, u64)> {
        Vec::new()
    }
    fn export(self, t: i32) -> (Vec<u64>, usize) {
        let v = self.0.into_ordered_vec(t);
        let c = v.capacity();
        (v.iter().map(|x| x.serial()).collect(), c)
    }
}

impl KeyColl for WideVal<KeyExpList<XKey, i32, KBig>> {
    const IS_TREE: bool = false;
    const NAME: &'static str = "KeyExpList (160-byte values)";
    fn make(cap: usize) -> Self {
        WideVal(KeyExpList::new(cap))
    }
    fn snap(&self) -> Option<VerifSnapshot> {
        None
    }
    fn key_at(&self, _slot: u32) -> XKey {
        unreachable!()
    }
    fn val_at(&self, _slot: u32) -> u64 {
        unreachable!()
    }
    fn entries(&self) -> Vec<(XKey, u64)> {
        self.0.verif_entries().into_iter().map(|(k, v)| (k, v.serial())).collect()
    }
    fn export(self, t: i32) -> (Vec<u64>, usize) {
        let v = self.0.into_ordered_vec(t);
        let c = v.capacity();
        (v.iter().map(|x| x.serial()).collect(), c)
    }
}

impl KeyColl for KeyExpTree<XKey, i32, u64> {
    const IS_TREE: bool = true;
    const NAME: &'static str = "KeyExpTree";
    fn make(cap: usize) -> Self {
        KeyExpTree::new(cap)
    }
    fn snap(&self) -> Option<VerifSnapshot> {
        Some(self.verif_snapshot())
    }
    fn key_at(&self, slot: u32) -> XKey {
        self.verif_key_at(slot)
    }
    fn val_at(&self, slot: u32) -> u64 {
        self.verif_val_at(slot)
    }
    fn entries(&self) -> Vec<(XKey, u64)> {
        Vec::new()
    }
}

impl KeyColl for KeyExpList<XKey, i32, u64> {
    const IS_TREE: bool = false;
    const NAME: &'static str = "KeyExpList";
    fn make(cap: usize) -> Self {
        KeyExpList::new(cap)
    }
    fn snap(&self) -> Option<VerifSnapshot> {
        None
    }
    fn key_at(&self, _slot: u32) -> XKey {
        unreachable!()
    }
    fn val_at(&self, _slot: u32) -> u64 {
        unreachable!()
    }
    fn entries(&self) -> Vec<(XKey, u64)> {
        self.verif_entries()
    }
}

/// What is physically stored, in storage (= key) order.
pub struct Phys {
    pub entries: Vec<(XKey, u64)>,
    pub view: Option<TreeView>,
    pub snap: Option<VerifSnapshot>,
}

pub fn phys<C: KeyColl>(coll: &C) -> Result<Phys, String> {
    if let Some(s) = coll.snap() {
        let view = walk(&s)?;
        let entries = view.inorder.iter().map(|n| (coll.key_at(n.slot), coll.val_at(n.slot))).collect();
        Ok(Phys { entries, view: Some(view), snap: Some(s) })
    } else {
        Ok(Phys { entries: coll.entries(), view: None, snap: None })
    }
}

#[derive(Clone, Copy, Debug, PartialEq)]
struct MEntry {
    k: i32,
    exp: i32,
    serial: u64,
}

#[derive(Clone, Debug, Default)]
struct KModel {
    entries: Vec<MEntry>,
}

impl KModel {
    fn is_live(&self, k: i32, t: i32) -> bool {
        self.entries.iter().any(|e| e.k == k && e.exp > t)
    }
    fn live_count(&self, t: i32) -> usize {
        self.entries.iter().filter(|e| e.exp > t).count()
    }
    /// greatest-keyed live entry satisfying the bound
    fn pred(&self, t: i32, bound: impl Fn(i32) -> bool) -> Option<MEntry> {
        let mut best: Option<MEntry> = None;
        for e in &self.entries {
            if e.exp > t && bound(e.k) && best.map(|b| e.k > b.k).unwrap_or(true) {
                best = Some(*e);
            }
        }
        best
    }
    fn get(&self, t: i32, k: i32) -> Option<MEntry> {
        self.entries.iter().copied().find(|e| e.k == k && e.exp > t)
    }
    fn live_sorted(&self, t: i32) -> Vec<MEntry> {
        let mut v: Vec<MEntry> = self.entries.iter().copied().filter(|e| e.exp > t).collect();
        v.sort_by_key(|e| e.k);
        v
    }
    /// entries that can never be live again (time is monotone until the next clear)
    fn prune(&mut self, clock: i32) {
        if self.entries.len() > 256 {
            self.entries.retain(|e| e.exp > clock);
        }
    }
}

struct KeyRun<'a, C: KeyColl> {
    rc: &'a RunCfg,
    out: Outcome,
    coll: Option<C>,
    twin: Option<C>,
    model: KModel,
    clock: i32,
    clock0: i32,
    u: i32,
    cap: usize,
    serial: u32,
    snap_on: bool,
    force_snap: bool,
    peak: usize,
    used: Vec<bool>,
    growths: u32,
    removals_since_growth: u32,
    last_len: usize,
    is_list_variant: bool,
    tmax: i64,
    last_stored: usize,
    inserted_since_clear: usize,
}

enum Step {
    Continue,
    Stop,
}

pub fn run_key<C: KeyColl>(case: &Case, rc: &RunCfg) -> Outcome {
    crate::instr::reset();
    let cap = case.get_i64("cap", 8).max(0) as usize;
    let u = case.get_i64("U", 6).clamp(1, 10_000_000) as i32;
    let clock0 = case.get_i64("clock0", 0) as i32;
    let snap_on = case.get_i64("snap", 1) != 0;
    let mut r = KeyRun::<C> {
        rc,
        out: Outcome::default(),
        coll: Some(C::make(cap)),
        twin: None,
        model: KModel::default(),
        clock: clock0,
        clock0,
        u,
        cap,
        serial: 0,
        snap_on,
        force_snap: false,
        peak: 0,
        used: Vec::new(),
        growths: 0,
        removals_since_growth: 0,
        last_len: 0,
        is_list_variant: !C::IS_TREE,
        tmax: case.get_i64("Tmax", i64::MAX),
        last_stored: 0,
        inserted_since_clear: 0,
    };
    if let Some(c) = r.coll.as_ref() {
        if let Some(s) = c.snap() {
            r.last_len = s.links.len();
        }
    }
    if case.get_i64("local", 0) != 0 {
        r.out.class("local_window");
    }
    let mut last_look = 0usize;
    for (i, op) in case.ops.iter().enumerate() {
        if r.out.failure.is_some() || r.out.blocked.is_some() {
            break;
        }
        if [K_FL, K_FLE, K_FLEBY, K_GET].contains(&op.kind) {
            if i >= last_look + 100 {
                r.out.class("sparse_observations");
            }
            last_look = i;
        }
        match r.step(i, op) {
            Step::Continue => {}
            Step::Stop => break,
        }
        r.out.ops_run += 1;
    }
    r.finish(case.ops.len());
    r.out
}

macro_rules! trace {
    ($self:expr, $($arg:tt)*) => {
        if $self.rc.trace {
            $self.out.trace.push(format!($($arg)*));
        }
    };
}

impl<'a, C: KeyColl> KeyRun<'a, C> {
    fn next_serial(&mut self) -> u32 {
        self.serial += 1;
        self.serial
    }

    fn probe_of(&self, a: i64) -> i32 {
        // -1 ..= U
        (a.rem_euclid(self.u as i64 + 2) - 1) as i32
    }

    /// fault-injection countdown for operation `i` (exhaustive mode)
    fn countdown_for(&self, i: usize) -> Option<u64> {
        match self.rc.inject {
            Some((oi, j)) if oi == i => Some(j),
            _ => None,
        }
    }

    /// a library call failed: attribute it
    fn on_call_err(&mut self, i: usize, e: CallErr, observed_by: &[u32], what: &str) -> Step {
        match e {
            CallErr::Injected => unreachable!("injected panics are handled by the caller"),
            CallErr::Budget => {
                let msg = format!("{}: callback budget exceeded (non-terminating loop over user code?) in {}", C::NAME, what);
                let pn = if self.rc.obs(10) { 10 } else { self.rc.observe.trailing_zeros() };
                self.out.fail(pn, "callback-budget", i, msg);
            }
            CallErr::Panic(m) => {
                let msg = format!("{}: panic in {}: {}", C::NAME, what, m);
                if self.rc.obs(10) {
                    self.out.fail(10, "panic", i, msg);
                } else if let Some(pn) = observed_by.iter().find(|n| self.rc.obs(**n)) {
                    self.out.fail(*pn, "panic-in-observed-op", i, msg);
                } else {
                    // the in-contract history cannot be completed: a counterexample to any property
                    // that quantifies over all histories (and, of course, to C10)
                    let pn = self.rc.observe.trailing_zeros();
                    self.out.fail(pn, "history-aborted", i, format!("{} (the in-contract history cannot be completed, so what the property promises for it is not delivered)", msg));
                }
            }
        }
        Step::Stop
    }

    fn budget(&self) -> u64 {
        // upper bound of what can be physically stored: everything inserted since the last clear
        // (one operation may lazily remove all of it)
        budget_for(self.inserted_since_clear + 8)
    }

    fn pre_phys(&mut self, i: usize) -> Option<Phys> {
        if !(self.snap_on || self.force_snap) {
            return None;
        }
        match phys(self.coll.as_ref().unwrap()) {
            Ok(p) => {
                self.last_stored = p.entries.len();
                Some(p)
            }
            Err(m) => {
                // structure already broken before this op: report under C02 if observed
                if self.rc.obs(2) {
                    self.out.fail(2, "links", i, format!("{}: {}", C::NAME, m));
                } else if self.rc.obs(11) {
                    self.out.fail(11, "links", i, format!("{}: {}", C::NAME, m));
                } else {
                    // the links are inconsistent: structural classification is off from here on,
                    // the functional oracles keep judging
                    self.snap_on = false;
                    self.out.class("structure_unreadable");
                }
                None
            }
        }
    }

    /// structural checks after a completed public operation (C02, C11) + bookkeeping
    fn post_struct(&mut self, i: usize, pre: &Option<Phys>, after_clear: bool) -> Option<Phys> {
        if !(self.snap_on || self.force_snap) || !C::IS_TREE {
            return None;
        }
        let coll = self.coll.as_ref().unwrap();
        let s = coll.snap().unwrap();
        let key_of = |slot: u32| coll.key_at(slot).k as i64;
        let view = if self.rc.obs(2) {
            match valid_rb(&s, &key_of, false) {
                Ok(v) => v,
                Err(m) => {
                    self.out.fail(2, "valid-rb", i, format!("{}: after op #{}: {}", C::NAME, i, m));
                    return None;
                }
            }
        } else {
            match walk(&s) {
                Ok(v) => v,
                Err(m) => {
                    if self.rc.obs(11) {
                        self.out.fail(11, "links", i, format!("{}: after op #{}: {}", C::NAME, i, m));
                    } else {
                        self.snap_on = false;
                        self.out.class("structure_unreadable");
                    }
                    return None;
                }
            }
        };
        if self.rc.obs(11) {
            if let Err(m) = valid_arena(&s, &view) {
                self.out.fail(11, "arena", i, format!("{}: after op #{}: {}", C::NAME, i, m));
                return None;
            }
            if after_clear && s.unused.len() + 1 != s.links.len() {
                self.out.fail(11, "clear-free-list", i, format!("{}: after clear the free list has {} of {} slots", C::NAME, s.unused.len(), s.links.len() - 1));
                return None;
            }
        }
        // bookkeeping
        if view.n > self.peak {
            self.peak = view.n;
        }
        let len = s.links.len();
        if len > self.last_len {
            self.growths += 1;
            self.removals_since_growth = 0;
            self.out.class("arena_growth");
            if self.growths >= 2 {
                self.out.class("arena_growth_x2");
            }
        }
        self.last_len = len;
        if self.used.len() < len {
            self.used.resize(len, false);
        }
        for n in &view.inorder {
            self.used[n.slot as usize] = true;
        }
        if let Some(p) = pre {
            if let Some(pv) = &p.view {
                if view.n < pv.n {
                    self.removals_since_growth += (pv.n - view.n) as u32;
                    if self.growths >= 2 && self.removals_since_growth >= 100 {
                        self.out.class("c11_nontrivial");
                    }
                }
            }
        }
        if self.rc.obs(11) {
            let bound = 8 * (self.peak + 1) + 4 * self.cap.max(8);
            if len > bound {
                self.out.fail(11, "arena-bound", i, format!("{}: arena has {} slots with peak population {} and hint {} (bound {})", C::NAME, len, self.peak, self.cap, bound));
                return None;
            }
        }
        if view.root_red && view.n > 0 {
            self.out.class("red_root");
        }
        if view.height >= 6 {
            self.out.class("height_ge_6");
        }
        if view.height >= 33 {
            self.out.class("height_ge_33");
        }
        let entries = view.inorder.iter().map(|n| (coll.key_at(n.slot), coll.val_at(n.slot))).collect();
        let post = Phys { entries, view: Some(view), snap: Some(s) };
        // removal classification (C02 classes)
        if let Some(p) = pre {
            self.classify_removals(p, &post);
        }
        Some(post)
    }

    fn classify_removals(&mut self, pre: &Phys, post: &Phys) {
        let (Some(pv), Some(_)) = (&pre.view, &post.view) else { return };
        let mut removed = 0;
        for (idx, (_, val)) in pre.entries.iter().enumerate() {
            if !post.entries.iter().any(|(_, v)| v == val) {
                removed += 1;
                let n = &pv.inorder[idx];
                match (n.nchild, n.red) {
                    (2, _) => self.out.class("rm_two_children"),
                    (1, _) => self.out.class("rm_one_child"),
                    (0, true) => self.out.class("rm_red_leaf"),
                    (0, false) => {
                        if pv.n > 1 {
                            self.out.class("rm_black_leaf")
                        }
                    }
                    _ => {}
                }
            }
        }
        if removed >= 2 {
            self.out.class("rm_multi_in_one_op");
        }
        // rotation: a surviving entry changed parent slot
        if let (Some(a), Some(b)) = (&pre.view, &post.view) {
            for n in &b.inorder {
                if let Some(o) = a.find(n.slot) {
                    if o.parent != n.parent {
                        self.out.class("rotation_or_relink");
                        break;
                    }
                }
            }
        }
    }

    fn c20_check(&mut self, i: usize, t: i32, own_serial: u32, log: &[(i32, i32, u32)], what: &str) {
        if !self.rc.obs(20) {
            return;
        }
        self.out.observations += log.len() as u32;
        for (k, exp, serial) in log {
            if *serial == own_serial {
                continue;
            }
            if *exp <= t {
                self.out.fail(
                    20,
                    "expired-key-compared",
                    i,
                    format!("{}: {} at t={} handed stored key k={} exp={} (already expired) to the caller's comparison code", C::NAME, what, t, k, exp),
                );
                return;
            }
        }
    }

    fn query_classes(&mut self, pre: &Option<Phys>, probe: i32) {
        let t = self.clock;
        if self.model.entries.len() > 50_000 {
            // classification only; not worth a sort of a huge model per query
            return;
        }
        let live = self.model.live_sorted(t);
        if live.len() >= 2 {
            self.out.class("q_2live");
        }
        if let Some(p) = pre {
            let expired_stored = p.entries.iter().filter(|(k, _)| k.exp <= t).count();
            if expired_stored >= 1 {
                self.out.class("q_expired_stored");
                if live.len() >= 2 {
                    self.out.class("q_expired_stored_2live");
                }
                if self.is_list_variant {
                    self.out.class("list_op_expired_stored");
                }
            } else if self.is_list_variant && !p.entries.is_empty() {
                self.out.class("list_op_no_expired_stored");
            }
            if p.entries.iter().any(|(k, _)| k.exp == t) {
                self.out.class("q_t_eq_exp");
            }
        }
        if live.is_empty() {
            self.out.class("probe_empty");
        } else if probe < live[0].k {
            self.out.class("probe_below");
        } else if probe > live[live.len() - 1].k {
            self.out.class("probe_above");
        } else if live.iter().any(|e| e.k == probe) {
            self.out.class("probe_equal");
        } else {
            self.out.class("probe_gap");
        }
    }

    fn lazy_classes(&mut self, pre: &Option<Phys>, post: &Option<Phys>) {
        if let (Some(a), Some(b)) = (pre, post) {
            if b.entries.len() < a.entries.len() {
                self.out.class("q_lazy_removal");
                if let Some(pv) = &a.view {
                    for (idx, (_, val)) in a.entries.iter().enumerate() {
                        if !b.entries.iter().any(|(_, v)| v == val) && pv.inorder[idx].nchild == 2 {
                            self.out.class("q_lazy_removal_2child");
                        }
                    }
                }
            }
        }
    }

    /// Observation sweep used after an injected panic: every probe of the universe through
    /// first_less / first_less_or_equal / get_value at the current clock, against `model`.
    fn sweep_matches(&mut self, model: &KModel) -> Result<(), String> {
        let t = self.clock;
        let umax = self.u.min(64);
        for pk in -1..=umax {
            let key = XKey::new(pk, t, u32::MAX);
            let coll = self.coll.as_mut().unwrap();
            let (r, _, _) = lib_call(None, crate::run::INTERNAL_BUDGET, false, || coll.first_less(t, DEFAULT_VAL, key));
            let got = r.map_err(|e| format!("first_less({}) failed during sweep: {:?}", pk, e))?;
            let exp = model.pred(t, |k| k < pk).map(|e| e.serial).unwrap_or(DEFAULT_VAL);
            if got != exp {
                return Err(format!("first_less(t={}, {}) = {} expected {}", t, pk, got, exp));
            }
            let coll = self.coll.as_mut().unwrap();
            let (r, _, _) = lib_call(None, crate::run::INTERNAL_BUDGET, false, || coll.first_less_or_equal(t, DEFAULT_VAL, key));
            let got = r.map_err(|e| format!("first_less_or_equal({}) failed during sweep: {:?}", pk, e))?;
            let exp = model.pred(t, |k| k <= pk).map(|e| e.serial).unwrap_or(DEFAULT_VAL);
            if got != exp {
                return Err(format!("first_less_or_equal(t={}, {}) = {} expected {}", t, pk, got, exp));
            }
            let coll = self.coll.as_mut().unwrap();
            let (r, _, _) = lib_call(None, crate::run::INTERNAL_BUDGET, false, || coll.get_value(t, key));
            let got = r.map_err(|e| format!("get_value({}) failed during sweep: {:?}", pk, e))?;
            let exp = model.get(t, pk).map(|e| e.serial);
            if got != exp {
                return Err(format!("get_value(t={}, {}) = {:?} expected {:?}", t, pk, got, exp));
            }
        }
        Ok(())
    }

    /// After an injected panic inside operation `i`: structure valid, contents == before or after.
    /// Returns true if the "after" model holds (the op took effect).
    fn after_injection(&mut self, i: usize, before: &KModel, after: Option<&KModel>, what: &str) -> Option<bool> {
        self.out.injections += 1;
        if self.rc.inject_all {
            self.out.class("injection_delivered_compound");
        }
        if let Ok(now) = phys(self.coll.as_ref().unwrap()) {
            if now.entries.len() < self.last_stored {
                self.out.class("inject_after_lazy_removal");
            }
            self.last_stored = now.entries.len();
        }
        if C::IS_TREE {
            let coll = self.coll.as_ref().unwrap();
            let s = coll.snap().unwrap();
            let key_of = |slot: u32| coll.key_at(slot).k as i64;
            match valid_rb(&s, &key_of, false) {
                Ok(view) => {
                    if let Err(m) = valid_arena(&s, &view) {
                        self.out.fail(18, "arena-after-panic", i, format!("{}: after a panic injected into {}: {}", C::NAME, what, m));
                        return None;
                    }
                }
                Err(m) => {
                    self.out.fail(18, "structure-after-panic", i, format!("{}: after a panic injected into {}: {}", C::NAME, what, m));
                    return None;
                }
            }
        }
        let e1 = match self.sweep_matches(before) {
            Ok(()) => return Some(false),
            Err(m) => m,
        };
        if let Some(a) = after {
            if self.sweep_matches(a).is_ok() {
                return Some(true);
            }
        }
        self.out.fail(
            18,
            "torn-after-panic",
            i,
            format!("{}: after a panic injected into {} the contents match neither the state before nor after the operation: {}", C::NAME, what, e1),
        );
        None
    }

    fn step(&mut self, i: usize, op: &RawOp) -> Step {
        let t = self.clock;
        if self.rc.progress {
            let l = self.is_list_variant;
            let observed = match op.kind {
                K_FL | K_FLE | K_FLEBY | K_ISEMPTY => (self.rc.obs(1) && !l) || (self.rc.obs(13) && l),
                K_GET => (self.rc.obs(6) && !l) || (self.rc.obs(13) && l),
                K_EXPORT => self.rc.obs(7) || self.rc.obs(19) || (self.rc.obs(13) && l),
                K_CLEAR => self.rc.obs(12),
                _ => false,
            } || self.rc.obs(10);
            self.rc.progress_line(i, KEY_OPS.get(op.kind as usize).copied().unwrap_or("?"), observed);
        }
        match op.kind {
            K_INS => self.op_insert(i, op),
            K_FL | K_FLE | K_FLEBY => self.op_query(i, op),
            K_GET => self.op_get(i, op),
            K_ADV => {
                let d = op.args[0].rem_euclid(1 << 20) as i32;
                if (t as i64 - self.clock0 as i64) + d as i64 > self.tmax {
                    // bounded universes (enumerator): the clock does not move past Tmax
                    self.out.degraded += 1;
                    self.out.callbacks.push(0);
                    return Step::Continue;
                }
                self.clock = t.saturating_add(d);
                self.model.prune(self.clock);
                trace!(self, "#{} advance clock {} -> {}", i, t, self.clock);
                self.out.callbacks.push(0);
                Step::Continue
            }
            K_CLEAR => self.op_clear(i, op),
            K_ISEMPTY => self.op_isempty(i),
            K_EXPORT => self.op_export(i, op),
            K_BULK => self.op_bulk(i, op),
            K_RUN => {
                let len = op.args[1].rem_euclid(200).max(1);
                let desc = op.args[2].rem_euclid(2) == 1;
                let start = op.args[0].rem_euclid(self.u as i64);
                let t = self.clock;
                for j in 0..len {
                    let k = if desc { start - j } else { start + j };
                    if k < 0 || k >= self.u as i64 {
                        break;
                    }
                    if self.model.is_live(k as i32, t) {
                        continue;
                    }
                    match self.op_insert(i, &RawOp::new(K_INS, &[k, op.args[3]])) {
                        Step::Continue => {
                            self.out.callbacks.pop();
                        }
                        Step::Stop => return Step::Stop,
                    }
                }
                self.out.callbacks.push(0);
                self.out.class(if desc { "run_descending" } else { "run_ascending" });
                Step::Continue
            }
            K_DRAIN => {
                let n = op.args[0].rem_euclid(1 << 20).max(1);
                let span = self.u as i64 + 2;
                for j in 0..n {
                    let probe = (j * span) / n;
                    let q = RawOp::new(if j % 2 == 0 { K_FLE } else { K_FL }, &[probe]);
                    match self.op_query(i, &q) {
                        Step::Continue => {
                            // one callbacks entry per raw op
                            self.out.callbacks.pop();
                        }
                        Step::Stop => return Step::Stop,
                    }
                }
                self.out.callbacks.push(0);
                self.out.class("drain");
                Step::Continue
            }
            _ => {
                self.out.degraded += 1;
                self.out.callbacks.push(0);
                Step::Continue
            }
        }
    }

    fn op_insert(&mut self, i: usize, op: &RawOp) -> Step {
        let t = self.clock;
        let k0 = op.args[0].rem_euclid(self.u as i64) as i32;
        let mut k = k0;
        let mut found = false;
        for _ in 0..self.u.min(128) {
            if !self.model.is_live(k, t) {
                found = true;
                break;
            }
            k = (k + 1) % self.u;
        }
        if !found {
            self.out.degraded += 1;
            self.out.callbacks.push(0);
            trace!(self, "#{} insert: no insertable key (degraded)", i);
            return Step::Continue;
        }
        let d = op.args[1].rem_euclid(1 << 20) as i32;
        // d >= 500 000 stands for "never expires": the expiration type's maximum
        let exp = if d >= 500_000 { i32::MAX } else { t.saturating_add(d) };
        if exp == i32::MAX {
            self.out.class("ins_exp_max");
        }
        let serial = self.next_serial();
        let key = XKey::new(k, exp, serial);
        self.inserted_since_clear += 1;
        trace!(self, "#{} insert k={} exp={} val={} at t={}", i, k, exp, serial, t);
        if d == 0 {
            self.out.class("ins_exp_eq_time");
        }
        let pre = self.pre_phys(i);
        if self.out.failure.is_some() || self.out.blocked.is_some() {
            return Step::Stop;
        }
        if let Some(p) = &pre {
            if p.entries.iter().any(|(sk, _)| sk.k == k && sk.exp <= t) {
                self.out.class("reinsert_expired_key");
            }
            if p.entries.iter().any(|(sk, _)| sk.exp <= t) {
                self.out.class("op_with_expired_stored");
                if self.is_list_variant {
                    self.out.class("list_op_expired_stored");
                }
            } else if self.is_list_variant && !p.entries.is_empty() {
                self.out.class("list_op_no_expired_stored");
            }
        }
        let before = if self.rc.inject.is_some() || self.rc.inject_all { self.model.clone() } else { KModel::default() };
        let mut after = self.model.clone();
        after.entries.push(MEntry { k, exp, serial: serial as u64 });
        let budget = self.budget();
        let record = self.rc.obs(20);
        let mut countdown = self.countdown_for(i).or(if self.rc.inject_all { Some(0) } else { None });
        let mut total_calls = 0;
        loop {
            let coll = self.coll.as_mut().unwrap();
            let (r, calls, log) = lib_call(countdown, budget, record, || coll.insert(key, serial as u64, t));
            total_calls = total_calls.max(calls);
            match r {
                Ok(()) => {
                    self.c20_check(i, t, serial, &log, "insert");
                    self.model = after;
                    break;
                }
                Err(CallErr::Injected) => {
                    match self.after_injection(i, &before, Some(&after), "insert") {
                        None => return Step::Stop,
                        Some(true) => {
                            self.model = after;
                            break;
                        }
                        Some(false) => {
                            if self.rc.inject_all {
                                countdown = countdown.map(|c| c + 1);
                                continue;
                            }
                            // exhaustive mode: the insert did not happen; carry on with the model unchanged
                            break;
                        }
                    }
                }
                Err(e) => return self.on_call_err(i, e, &[], "insert"),
            }
        }
        self.out.callbacks.push(total_calls);
        if let Some(tw) = self.twin.as_mut() {
            let k2 = XKey::new(k, exp, serial);
            let (r, _, _) = lib_call(None, crate::run::INTERNAL_BUDGET, false, || tw.insert(k2, serial as u64, t));
            if r.is_err() {
                self.out.fail(12, "twin-panicked", i, "a fresh instance driven by the suffix panicked (twin insert failed)".into());
                return Step::Stop;
            }
        }
        let post = self.post_struct(i, &pre, false);
        self.lazy_classes(&pre, &post);
        if let (Some(a), Some(b)) = (&pre, &post) {
            if let (Some(_), Some(bv)) = (&a.view, &b.view) {
                if let Some((idx, _)) = b.entries.iter().enumerate().find(|(_, (_, v))| *v == serial as u64) {
                    if bv.inorder[idx].depth >= 3 {
                        self.out.class("insert_below_depth_2");
                    }
                }
            }
        }
        Step::Continue
    }

    fn op_query(&mut self, i: usize, op: &RawOp) -> Step {
        let t = self.clock;
        let p = self.probe_of(op.args[0]);
        let fam = op.args[1].rem_euclid(3) as u8;
        let serial = self.next_serial();
        let key = XKey::new(p, t, serial);
        let pre = self.pre_phys(i);
        if self.out.failure.is_some() || self.out.blocked.is_some() {
            return Step::Stop;
        }
        self.query_classes(&pre, p);
        let (name, expected, observed_by): (&str, Option<MEntry>, &[u32]) = match op.kind {
            K_FL => ("first_less", self.model.pred(t, |k| k < p), &[1, 13]),
            K_FLE => ("first_less_or_equal", self.model.pred(t, |k| k <= p), &[1, 13]),
            _ => {
                let e = match fam {
                    0 | 1 => self.model.pred(t, |k| k <= p),
                    _ => self.model.pred(t, |k| k < p),
                };
                ("first_less_or_equal_by", e, &[1, 13])
            }
        };
        let expected_val = expected.map(|e| e.serial).unwrap_or(DEFAULT_VAL);
        let budget = self.budget();
        let record = self.rc.obs(20);
        let mut countdown = self.countdown_for(i).or(if self.rc.inject_all { Some(0) } else { None });
        let before = if self.rc.inject.is_some() || self.rc.inject_all { self.model.clone() } else { KModel::default() };
        let mut total_calls = 0;
        let got;
        loop {
            let coll = self.coll.as_mut().unwrap();
            let kind = op.kind;
            let (r, calls, log) = lib_call(countdown, budget, record, || match kind {
                K_FL => coll.first_less(t, DEFAULT_VAL, key),
                K_FLE => coll.first_less_or_equal(t, DEFAULT_VAL, key),
                _ => coll.first_less_or_equal_by(t, DEFAULT_VAL, |sk| xkey_by(fam, sk, p)),
            });
            total_calls = total_calls.max(calls);
            match r {
                Ok(v) => {
                    self.c20_check(i, t, serial, &log, name);
                    got = v;
                    break;
                }
                Err(CallErr::Injected) => match self.after_injection(i, &before, None, name) {
                    None => return Step::Stop,
                    Some(_) => {
                        if self.rc.inject_all {
                            countdown = countdown.map(|c| c + 1);
                            continue;
                        }
                        self.out.callbacks.push(total_calls);
                        return Step::Continue;
                    }
                },
                Err(e) => return self.on_call_err(i, e, observed_by, name),
            }
        }
        self.out.callbacks.push(total_calls);
        trace!(self, "#{} {}(t={}, probe={}{}) -> {} (model {})", i, name, t, p, if op.kind == K_FLEBY { format!(", comparator family {}", fam) } else { String::new() }, fmt_val(got), fmt_val(expected_val));
        let pn = if self.is_list_variant { 13 } else { 1 };
        if self.rc.obs(pn) {
            self.out.observations += 1;
            if got != expected_val {
                self.out.fail(
                    pn,
                    match op.kind {
                        K_FL => "first_less",
                        K_FLE => "first_less_or_equal",
                        _ => "first_less_or_equal_by",
                    },
                    i,
                    format!("{}: {}(t={}, probe={}) returned {} but the reference answer is {}", C::NAME, name, t, p, fmt_val(got), fmt_val(expected_val)),
                );
                return Step::Stop;
            }
        }
        if let Some(tw) = self.twin.as_mut() {
            let kind = op.kind;
            let (r, _, _) = lib_call(None, crate::run::INTERNAL_BUDGET, false, || match kind {
                K_FL => tw.first_less(t, DEFAULT_VAL, key),
                K_FLE => tw.first_less_or_equal(t, DEFAULT_VAL, key),
                _ => tw.first_less_or_equal_by(t, DEFAULT_VAL, |sk| xkey_by(fam, sk, p)),
            });
            match r {
                Ok(v2) => {
                    if self.rc.obs(12) {
                        self.out.observations += 1;
                        self.out.twin_observation();
                        if v2 != got {
                            self.out.fail(12, "twin-query", i, format!("{}: after clear, {}(t={}, probe={}) = {} but a fresh instance driven by the same suffix gives {}", C::NAME, name, t, p, fmt_val(got), fmt_val(v2)));
                            return Step::Stop;
                        }
                    }
                }
                Err(_) => {
                    self.out.fail(12, "twin-panicked", i, "a fresh instance driven by the suffix panicked (twin query failed)".into());
                    return Step::Stop;
                }
            }
        }
        let post = self.post_struct(i, &pre, false);
        self.lazy_classes(&pre, &post);
        Step::Continue
    }

    fn op_get(&mut self, i: usize, op: &RawOp) -> Step {
        let t = self.clock;
        let p = self.probe_of(op.args[0]);
        let serial = self.next_serial();
        let key = XKey::new(p, t, serial);
        let pre = self.pre_phys(i);
        if self.out.failure.is_some() || self.out.blocked.is_some() {
            return Step::Stop;
        }
        self.query_classes(&pre, p);
        let expected = self.model.get(t, p);
        // C06 classes: where does the looked-up entry sit?
        if let (Some(e), Some(ph)) = (expected, &pre) {
            if let Some(v) = &ph.view {
                if v.n >= 3 {
                    if let Some((idx, _)) = ph.entries.iter().enumerate().find(|(_, (_, val))| *val == e.serial) {
                        let n = &v.inorder[idx];
                        if n.slot != v.root {
                            self.out.class("get_nonroot");
                            let root_idx = v.inorder.iter().position(|x| x.slot == v.root).unwrap_or(0);
                            if idx < root_idx {
                                self.out.class("get_left_of_root");
                            } else {
                                self.out.class("get_right_of_root");
                            }
                            if n.depth >= 3 {
                                self.out.class("get_depth_ge_3");
                            }
                        } else {
                            self.out.class("get_root");
                        }
                    }
                }
            } else if ph.entries.len() >= 3 {
                self.out.class("get_list_ge_3");
            }
        }
        if expected.is_none() {
            if let Some(ph) = &pre {
                if ph.entries.iter().any(|(k, _)| k.k == p && k.exp <= t) {
                    self.out.class("get_stored_expired");
                } else {
                    self.out.class("get_never_stored_or_gone");
                }
            }
        }
        let budget = self.budget();
        let record = self.rc.obs(20);
        let mut countdown = self.countdown_for(i).or(if self.rc.inject_all { Some(0) } else { None });
        let before = if self.rc.inject.is_some() || self.rc.inject_all { self.model.clone() } else { KModel::default() };
        let mut total_calls = 0;
        let got;
        loop {
            let coll = self.coll.as_mut().unwrap();
            let (r, calls, log) = lib_call(countdown, budget, record, || coll.get_value(t, key));
            total_calls = total_calls.max(calls);
            match r {
                Ok(v) => {
                    self.c20_check(i, t, serial, &log, "get_value");
                    got = v;
                    break;
                }
                Err(CallErr::Injected) => match self.after_injection(i, &before, None, "get_value") {
                    None => return Step::Stop,
                    Some(_) => {
                        if self.rc.inject_all {
                            countdown = countdown.map(|c| c + 1);
                            continue;
                        }
                        self.out.callbacks.push(total_calls);
                        return Step::Continue;
                    }
                },
                Err(e) => return self.on_call_err(i, e, &[6, 13], "get_value"),
            }
        }
        self.out.callbacks.push(total_calls);
        let exp_v = expected.map(|e| e.serial);
        trace!(self, "#{} get_value(t={}, key={}) -> {:?} (model {:?})", i, t, p, got, exp_v);
        let pn = if self.is_list_variant { 13 } else { 6 };
        if self.rc.obs(pn) {
            self.out.observations += 1;
            if got != exp_v {
                self.out.fail(pn, "get_value", i, format!("{}: get_value(t={}, key={}) returned {:?} but the reference answer is {:?}", C::NAME, t, p, got, exp_v));
                return Step::Stop;
            }
        }
        if let Some(tw) = self.twin.as_mut() {
            let (r, _, _) = lib_call(None, crate::run::INTERNAL_BUDGET, false, || tw.get_value(t, key));
            match r {
                Ok(v2) => {
                    if self.rc.obs(12) {
                        self.out.observations += 1;
                        self.out.twin_observation();
                        if v2 != got {
                            self.out.fail(12, "twin-get", i, format!("{}: after clear, get_value(t={}, key={}) = {:?} but a fresh instance gives {:?}", C::NAME, t, p, got, v2));
                            return Step::Stop;
                        }
                    }
                }
                Err(_) => {
                    self.out.fail(12, "twin-panicked", i, "a fresh instance driven by the suffix panicked (twin get failed)".into());
                    return Step::Stop;
                }
            }
        }
        let post = self.post_struct(i, &pre, false);
        self.lazy_classes(&pre, &post);
        Step::Continue
    }

    fn op_isempty(&mut self, i: usize) -> Step {
        let t = self.clock;
        let coll = self.coll.as_ref().unwrap();
        let (r, _, _) = lib_call(None, crate::run::INTERNAL_BUDGET, false, || coll.is_empty());
        self.out.callbacks.push(0);
        let got = match r {
            Ok(v) => v,
            Err(e) => return self.on_call_err(i, e, &[1, 13], "is_empty"),
        };
        trace!(self, "#{} is_empty() -> {}", i, got);
        let pn = if self.is_list_variant { 13 } else { 1 };
        if self.rc.obs(pn) {
            self.out.observations += 1;
            if got && self.model.live_count(t) > 0 {
                self.out.fail(pn, "is_empty", i, format!("{}: is_empty() is true while {} entries are live at t={}", C::NAME, self.model.live_count(t), t));
                return Step::Stop;
            }
        }
        if let Some(tw) = self.twin.as_ref() {
            // emptiness of tree variants depends on lazily removed entries only through queries
            // both instances received, so it must agree
            let e2 = tw.is_empty();
            if self.rc.obs(12) {
                self.out.observations += 1;
                if e2 != got {
                    self.out.fail(12, "twin-is-empty", i, format!("{}: after clear, is_empty() = {} but a fresh instance gives {}", C::NAME, got, e2));
                    return Step::Stop;
                }
            }
        }
        Step::Continue
    }

    fn op_clear(&mut self, i: usize, op: &RawOp) -> Step {
        let pre = self.pre_phys(i);
        if self.out.failure.is_some() || self.out.blocked.is_some() {
            return Step::Stop;
        }
        if let Some(p) = &pre {
            if p.entries.len() >= 3 {
                self.out.class("clear_ge_3_stored");
            }
            if p.entries.is_empty() {
                self.out.class("clear_empty");
            }
            if p.entries.iter().any(|(k, _)| k.exp <= self.clock) {
                self.out.class("clear_with_expired_stored");
            }
            if self.growths > 0 {
                self.out.class("clear_after_growth");
            }
        }
        let coll = self.coll.as_mut().unwrap();
        let (r, _, _) = lib_call(None, crate::run::INTERNAL_BUDGET, false, || coll.clear());
        self.out.callbacks.push(0);
        if let Err(e) = r {
            return self.on_call_err(i, e, &[12], "clear");
        }
        let newclock = self.clock0.saturating_add(op.args[0].rem_euclid(1 << 20) as i32);
        if newclock < self.clock {
            self.out.class("clock_restarted_earlier");
        }
        trace!(self, "#{} clear(); clock {} -> {}", i, self.clock, newclock);
        self.clock = newclock;
        self.model = KModel::default();
        self.inserted_since_clear = 0;
        if self.rc.obs(12) {
            self.out.observations += 1;
            let coll = self.coll.as_ref().unwrap();
            if !coll.is_empty() {
                self.out.fail(12, "not-empty-after-clear", i, format!("{}: is_empty() is false right after clear()", C::NAME));
                return Step::Stop;
            }
            self.twin = Some(C::make(self.cap));
            self.out.class("twin_started");
        }
        if self.snap_on {
            self.post_struct(i, &pre, true);
        } else {
            self.checkpoint(i, true);
        }
        Step::Continue
    }

    fn op_export(&mut self, i: usize, op: &RawOp) -> Step {
        let dt = op.args[0].rem_euclid(1 << 20) as i32;
        let t = self.clock.saturating_add(dt);
        // the export is judged against what is physically stored: one snapshot even when per-step
        // snapshots are off
        self.force_snap = C::IS_TREE && self.rc.inject.is_none() && !self.rc.inject_all;
        let pre = self.pre_phys(i);
        self.force_snap = false;
        if self.out.failure.is_some() || self.out.blocked.is_some() {
            return Step::Stop;
        }
        let mut stored_n = self.model.entries.len();
        if let Some(p) = &pre {
            stored_n = p.entries.len();
            let expired = p.entries.iter().filter(|(k, _)| k.exp <= t).count();
            if expired >= 1 {
                self.out.class("export_expired_stored");
            }
            if p.entries.iter().any(|(k, _)| k.exp == t) {
                self.out.class("export_t_eq_exp");
            }
            if expired == p.entries.len() && expired > 0 {
                self.out.class("export_all_expired");
            }
            if expired == 0 && !p.entries.is_empty() {
                self.out.class("export_none_expired");
            }
            if let (Some(v), Some(s)) = (&p.view, &p.snap) {
                let free_used = s.unused.iter().any(|u| self.used.get(*u as usize).copied().unwrap_or(false));
                if free_used {
                    self.out.class("export_after_free");
                    if expired >= 1 {
                        self.out.class("export_expired_and_after_free");
                    }
                }
                for idx in 0..v.inorder.len() {
                    if p.entries[idx].0.exp <= t && v.inorder[idx].nchild == 2 && idx + 1 < v.inorder.len() && p.entries[idx + 1].0.exp <= t {
                        self.out.class("export_expired_successor");
                    }
                }
                if stored_n >= 3 {
                    self.out.class("export_ge_3_stored");
                }
            }
        }
        let expected: Vec<u64> = self.model.live_sorted(t).iter().map(|e| e.serial).collect();
        let coll = self.coll.take().unwrap();
        let budget = budget_for(stored_n.max(self.inserted_since_clear) + 8) * 4 + 64 * stored_n.max(self.inserted_since_clear) as u64;
        let (r, calls, _) = lib_call(None, budget, false, move || coll.export(t));
        self.out.callbacks.push(calls);
        let (got, got_capacity) = match r {
            Ok(v) => v,
            Err(e) => return self.on_call_err(i, e, &[7, 13, 19], "into_ordered_vec"),
        };
        trace!(self, "#{} into_ordered_vec(t={}) -> {:?} (model {:?}), capacity {}", i, t, fmt_vals(&got), fmt_vals(&expected), got_capacity);
        let pn = if self.is_list_variant { 13 } else { 7 };
        if self.rc.obs(pn) || (self.is_list_variant && self.rc.obs(7)) {
            self.out.observations += 1;
            if got != expected {
                let pnum = if self.rc.obs(pn) { pn } else { 7 };
                self.out.fail(pnum, "export", i, format!("{}: into_ordered_vec(t={}) = {:?} but the live entries in key order are {:?}", C::NAME, t, fmt_vals(&got), fmt_vals(&expected)));
                return Step::Stop;
            }
        }
        if self.rc.obs(19) {
            self.out.observations += 1;
            let bound = 8 * (stored_n + self.cap.max(8)) + 64;
            if stored_n >= 100 {
                self.out.class("export_cap_ge_100");
            }
            if stored_n >= 12 {
                self.out.class("export_cap_ge_12");
            }
            if got_capacity > bound {
                self.out.fail(19, "export-capacity", i, format!("{}: into_ordered_vec returned a vector of capacity {} for {} stored entries ({} exported, hint {}); bound {}", C::NAME, got_capacity, stored_n, got.len(), self.cap, bound));
                return Step::Stop;
            }
        }
        if let Some(tw) = self.twin.take() {
            let (r, _, _) = lib_call(None, crate::run::INTERNAL_BUDGET, false, move || tw.into_ordered_vec(t));
            match r {
                Ok(v2) => {
                    if self.rc.obs(12) {
                        self.out.observations += 1;
                        self.out.twin_observation();
                        if v2 != got {
                            self.out.fail(12, "twin-export", i, format!("{}: after clear, into_ordered_vec(t={}) = {:?} but a fresh instance gives {:?}", C::NAME, t, fmt_vals(&got), fmt_vals(&v2)));
                            return Step::Stop;
                        }
                    }
                }
                Err(_) => {
                    self.out.fail(12, "twin-panicked", i, "a fresh instance driven by the suffix panicked (twin export failed)".into());
                }
            }
        }
        self.out.exported = Some(got);
        Step::Stop
    }

    fn op_bulk(&mut self, i: usize, op: &RawOp) -> Step {
        let t = self.clock;
        if self.model.live_count(t) > 0 {
            self.out.degraded += 1;
            self.out.callbacks.push(0);
            return Step::Continue;
        }
        let n = op.args[0].rem_euclid(4_000_001) as i64;
        let order = op.args[1].rem_euclid(4);
        let pattern = op.args[2].rem_euclid(8);
        trace!(self, "#{} bulk insert n={} order={} expiry-pattern={} at t={}", i, n, ["ascending", "descending", "permuted", "three greatest first, then ascending"][order as usize], pattern, t);
        // step coprime to n for the permuted order
        let mut step = ((n as f64) * 0.618) as i64 | 1;
        while n > 1 && gcd(step, n) != 1 {
            step += 2;
        }
        let far = t.saturating_add((n as i32).saturating_add(10));
        for j in 0..n {
            let k = match order {
                0 => j,
                1 => n - 1 - j,
                3 => {
                    if j < 3 {
                        (n - 3 + j).max(0)
                    } else {
                        j - 3
                    }
                }
                _ => (j * step) % n,
            } as i32;
            let exp = match pattern {
                // a sweep: the first three inserted never expire, the others one per tick in insertion order
                7 => {
                    if j < 3 {
                        far
                    } else {
                        t.saturating_add((j - 2) as i32)
                    }
                }
                0 => far,
                1 => {
                    if k % 2 == 1 {
                        t.saturating_add(1)
                    } else {
                        far
                    }
                }
                3 => t.saturating_add(1),
                // the last / the first 16 inserted expire at the next tick, the rest never does
                4 => {
                    if j + 16 >= n {
                        t.saturating_add(1)
                    } else {
                        far
                    }
                }
                5 => {
                    if j < 16 {
                        t.saturating_add(1)
                    } else {
                        far
                    }
                }
                // everything but the first three inserted expires at the next tick
                6 => {
                    if j < 3 {
                        far
                    } else {
                        t.saturating_add(1)
                    }
                }
                _ => {
                    if k % 8 == 0 {
                        far
                    } else {
                        t.saturating_add(1)
                    }
                }
            };
            let serial = self.next_serial();
            let key = XKey::new(k, exp, serial);
            let coll = self.coll.as_mut().unwrap();
            let (r, _, _) = lib_call(None, crate::run::INTERNAL_BUDGET, false, || coll.insert(key, serial as u64, t));
            if let Err(e) = r {
                return self.on_call_err(i, e, &[], "insert (bulk)");
            }
            if let Some(tw) = self.twin.as_mut() {
                tw.insert(key, serial as u64, t);
            }
            self.model.entries.push(MEntry { k, exp, serial: serial as u64 });
            self.inserted_since_clear += 1;
        }
        if (self.u as i64) < n {
            self.u = n as i32;
        }
        self.out.callbacks.push(0);
        self.out.class("bulk");
        if self.model.entries.len() >= 4096 {
            self.out.class("stored_ge_4096");
        }
        if self.model.entries.len() >= 65536 {
            self.out.class("stored_ge_65536");
        }
        if self.model.entries.len() >= 196_608 {
            self.out.class("stored_ge_196608");
        }
        self.checkpoint(i, false);
        if self.out.failure.is_some() || self.out.blocked.is_some() {
            return Step::Stop;
        }
        Step::Continue
    }

    /// structural validity once, also in cases that run without per-step snapshots
    fn checkpoint(&mut self, i: usize, after_clear: bool) {
        if !C::IS_TREE || self.coll.is_none() || self.rc.inject.is_some() || self.rc.inject_all {
            return;
        }
        self.force_snap = true;
        let none = None;
        self.post_struct(i, &none, after_clear);
        self.force_snap = false;
        self.out.class("checkpoint");
    }

    /// end-of-case observation sweep (large universes get no per-state closure, so look at
    /// everything once at the end): every stored key and its neighbours through the observed queries
    fn final_sweep(&mut self, nops: usize) {
        if self.coll.is_none() || self.rc.inject.is_some() || self.rc.inject_all || self.rc.want_state {
            return;
        }
        let list = self.is_list_variant;
        let q = (self.rc.obs(1) && !list) || (self.rc.obs(13) && list) || self.rc.obs(20) || self.rc.obs(10);
        let g = (self.rc.obs(6) && !list) || (self.rc.obs(13) && list) || self.rc.obs(20) || self.rc.obs(10);
        if !q && !g {
            return;
        }
        let mut probes: Vec<i64> = Vec::new();
        if self.u <= 64 {
            probes.extend(0..=(self.u as i64 + 1));
        } else {
            let t = self.clock;
            let mut ks: Vec<i32> = self.model.entries.iter().filter(|e| e.exp > t).map(|e| e.k).collect();
            ks.sort();
            ks.dedup();
            // both ends and an evenly spaced sample of the rest (fewer probes when every probe costs
            // a scan of a huge model)
            let want = if self.model.entries.len() > 50_000 { 120 } else { 600 };
            let stride = (ks.len() / want).max(1);
            for (j, k) in ks.iter().enumerate() {
                if j < want / 4 || j + want / 4 >= ks.len() || j % stride == 0 {
                    // probe_of subtracts one
                    probes.push(*k as i64);
                    probes.push(*k as i64 + 1);
                    probes.push(*k as i64 + 2);
                }
            }
            probes.push(0);
            probes.push(self.u as i64 + 1);
            probes.sort();
            probes.dedup();
        }
        for (j, p) in probes.iter().enumerate() {
            if q {
                let kind = [K_FL, K_FLE, K_FLEBY][j % 3];
                if let Step::Stop = self.op_query(nops, &RawOp::new(kind, &[*p, (j % 3) as i64])) {
                    return;
                }
                self.out.callbacks.pop();
            }
            if g {
                if let Step::Stop = self.op_get(nops, &RawOp::new(K_GET, &[*p])) {
                    return;
                }
                self.out.callbacks.pop();
            }
        }
    }

    fn finish(&mut self, nops: usize) {
        if self.out.failure.is_some() || self.out.blocked.is_some() {
            return;
        }
        if self.u > 64 {
            self.final_sweep(nops);
            if self.out.failure.is_some() || self.out.blocked.is_some() {
                return;
            }
        }
        if self.rc.want_state {
            if let Some(coll) = self.coll.as_ref() {
                self.out.state_key = state_key(coll, self.clock - self.clock0);
            }
        }
        // C12: if a twin is still alive, compare final exports at the current clock
        if self.rc.obs(12) && self.twin.is_some() && self.coll.is_some() {
            let t = self.clock;
            let coll = self.coll.take().unwrap();
            let tw = self.twin.take().unwrap();
            let (a, _, _) = lib_call(None, crate::run::INTERNAL_BUDGET, false, move || coll.into_ordered_vec(t));
            let (b, _, _) = lib_call(None, crate::run::INTERNAL_BUDGET, false, move || tw.into_ordered_vec(t));
            if let (Ok(a), Ok(b)) = (a, b) {
                self.out.observations += 1;
                if a != b {
                    let n = self.out.ops_run as usize;
                    self.out.fail(12, "twin-final-export", n, format!("{}: after clear, the final into_ordered_vec(t={}) = {:?} but a fresh instance gives {:?}", C::NAME, t, fmt_vals(&a), fmt_vals(&b)));
                }
            }
        }
    }
}

fn gcd(a: i64, b: i64) -> i64 {
    if b == 0 {
        a.abs()
    } else {
        gcd(b, a % b)
    }
}

fn fmt_val(v: u64) -> String {
    if v == DEFAULT_VAL {
        "default".to_string()
    } else {
        format!("v{}", v)
    }
}

fn fmt_vals(v: &[u64]) -> String {
    if v.len() > 24 {
        format!("[{} values: v{}, v{}, … v{}]", v.len(), v[0], v[1], v[v.len() - 1])
    } else {
        format!("{:?}", v)
    }
}

/// Canonical abstract state: pre-order (key, expiration, colour) + relative clock.
fn state_key<C: KeyColl>(coll: &C, rel_clock: i32) -> Option<Vec<u8>> {
    let mut key = Vec::new();
    key.extend_from_slice(&rel_clock.to_le_bytes());
    if let Some(s) = coll.snap() {
        if walk(&s).is_err() {
            return None;
        }
        fn rec<C: KeyColl>(coll: &C, s: &VerifSnapshot, slot: u32, out: &mut Vec<u8>) {
            if slot == EMPTY_REF {
                out.push(0);
                return;
            }
            let k = coll.key_at(slot);
            out.push(if s.red[slot as usize] { 1 } else { 2 });
            out.extend_from_slice(&k.k.to_le_bytes());
            out.extend_from_slice(&k.exp.to_le_bytes());
            rec(coll, s, s.links[slot as usize][1], out);
            rec(coll, s, s.links[slot as usize][2], out);
        }
        rec(coll, &s, s.root, &mut key);
    } else {
        for (k, _) in coll.entries() {
            key.extend_from_slice(&k.k.to_le_bytes());
            key.extend_from_slice(&k.exp.to_le_bytes());
        }
    }
    Some(key)
}
