//! Byte-level data provider for the coverage-guided fuzz target: decodes a byte string into the
//! same `Case` (configuration + raw operation list) the proptest strategies produce, so the
//! fuzzer drives the same model-directed interpreters and oracles.  `encode` is the inverse (used
//! to seed the corpus from golden cases and random proptest cases).
//!
//! Layout: 4 header bytes (variant, capacity hint index, universe/domain index, flags), then
//! 11-byte records: kind selector byte + 5 arguments of 2 bytes each (b0, b1): value = b0 when
//! b1 < 128, else ((b1 - 128) << 8) | b0.

use crate::case::{Case, RawOp, NARGS};
use crate::gen::{seg_domains, CAPS_WIDE};
use crate::interp_key::*;
use crate::interp_ord::*;
use crate::interp_seg::*;

pub const HEADER: usize = 4;
pub const RECORD: usize = 1 + 2 * NARGS;
pub const MAX_OPS: usize = 400;

const KEY_US: &[i64] = &[6, 3, 4, 16, 64];
const ORD_US: &[i64] = &[6, 4, 8, 16, 64, 300];

/// kinds the fuzzer may emit for (family, property); index = selector byte % len
pub fn kind_table(family: &str, pn: u32) -> Vec<u8> {
    let w: Vec<(u8, u32)> = match family {
        "key" => {
            // ins fl fle fleby get adv clear isempty export
            let w: [u32; 9] = match pn {
                1 => [8, 3, 3, 3, 0, 5, 1, 1, 0],
                6 => [8, 1, 1, 1, 8, 5, 1, 0, 0],
                7 | 19 => [8, 2, 2, 2, 2, 5, 1, 0, 1],
                12 => [8, 2, 2, 2, 3, 4, 2, 1, 1],
                _ => [8, 2, 2, 2, 3, 5, 1, 1, 1],
            };
            vec![(K_INS, w[0]), (K_FL, w[1]), (K_FLE, w[2]), (K_FLEBY, w[3]), (K_GET, w[4]), (K_ADV, w[5]), (K_CLEAR, w[6]), (K_ISEMPTY, w[7]), (K_EXPORT, w[8])]
        }
        "map" | "set" => {
            let steps = if family == "set" { 3 } else { 0 };
            vec![(O_INS, 8), (O_DEL, 5), (O_GET, 2), (O_ISEMPTY, 1), (O_CLEAR, 1), (O_HREAD, 2), (O_HWRITE, 2), (O_HDEL, 2), (O_STEP, steps), (O_WALK, steps / 3)]
        }
        _ => vec![(S_INS, 6), (S_QUERY, 6), (S_ADV, 3), (S_CLEAR, 1), (S_QUERYALL, 1), (S_PINS, 2), (S_PQUERY, 2)],
    };
    let mut t = Vec::new();
    for (k, n) in w {
        for _ in 0..n {
            t.push(k);
        }
    }
    t
}

fn arg_of(b0: u8, b1: u8) -> i64 {
    if b1 < 128 {
        b0 as i64
    } else {
        (((b1 - 128) as i64) << 8) | b0 as i64
    }
}

fn arg_bytes(v: i64) -> [u8; 2] {
    let v = v.clamp(0, 32767);
    if v < 256 {
        [v as u8, 0]
    } else {
        [(v & 255) as u8, 128 + (v >> 8) as u8]
    }
}

fn variants(family: &str, pn: u32) -> Vec<(&'static str, &'static str)> {
    let all = variants_all(family);
    let want: Option<&str> = match pn {
        13 => Some("list"),
        1 | 2 | 4 | 5 | 6 | 7 | 8 | 9 | 11 | 17 => Some("tree"),
        _ => None,
    };
    match want {
        Some(w) => {
            let v: Vec<_> = all.iter().copied().filter(|x| x.0 == w).collect();
            if v.is_empty() {
                all
            } else {
                v
            }
        }
        None => all,
    }
}

fn variants_all(family: &str) -> Vec<(&'static str, &'static str)> {
    match family {
        "key" => vec![("tree", "u64"), ("list", "u64")],
        "map" => vec![("tree", "u64"), ("tree", "string"), ("list", "u64"), ("list", "string"), ("tree", "wide"), ("list", "wide")],
        "set" => vec![("tree", "u64"), ("tree", "string"), ("tree", "bare"), ("list", "u64"), ("list", "string"), ("tree", "wide"), ("list", "wide")],
        _ => vec![("tree", "u64")],
    }
}

pub fn decode(family: &str, prop: &str, data: &[u8]) -> Case {
    let pn = crate::run::prop_num(prop).unwrap_or(10);
    let mut c = Case::new(prop, family);
    let h = |i: usize| data.get(i).copied().unwrap_or(0) as usize;
    let vs = variants(family, pn);
    match family {
        "seg" => {
            let doms = seg_domains(true);
            let (lo, len, rt) = doms[h(2) % doms.len()];
            c.set("lo", lo).set("len", len).set("rtype", rt);
        }
        _ => {
            let (coll, val) = vs[h(0) % vs.len()];
            c.set("coll", coll);
            if family != "key" {
                c.set("val", val);
            }
            c.set("cap", if h(1) < 200 { h(1) as i64 } else { CAPS_WIDE[(h(1) - 200) % CAPS_WIDE.len()] });
            let us = if family == "key" { KEY_US } else { ORD_US };
            c.set("U", us[h(2) % us.len()]);
            if family == "key" && h(3) & 1 == 1 {
                c.set("clock0", i32::MAX as i64 - 6);
            }
            if pn == 18 && h(3) & 2 == 2 {
                c.set("mode", "compound");
            }
        }
    }
    let table = kind_table(family, pn);
    let body = if data.len() > HEADER { &data[HEADER..] } else { &[][..] };
    for rec in body.chunks(RECORD).take(MAX_OPS) {
        if rec.len() < RECORD {
            break;
        }
        let kind = table[rec[0] as usize % table.len()];
        let mut args = [0i64; NARGS];
        for (a, slot) in args.iter_mut().enumerate() {
            *slot = arg_of(rec[1 + 2 * a], rec[2 + 2 * a]);
        }
        c.ops.push(RawOp { kind, args });
        if family == "key" && kind == K_EXPORT {
            break;
        }
    }
    // exhaustive fault enumeration is quadratic in the history length: keep those cases short
    if pn == 18 && c.get("mode").is_none() {
        c.ops.truncate(16);
    }
    c
}

/// inverse of `decode` (as far as the byte format can express the case)
pub fn encode(case: &Case) -> Vec<u8> {
    let pn = crate::run::prop_num(&case.prop).unwrap_or(10);
    let family = case.family.as_str();
    let mut out = vec![0u8; HEADER];
    match family {
        "seg" => {
            let doms = seg_domains(true);
            let lo = case.get_i64("lo", 0);
            let len = case.get_i64("len", 32);
            let rt = case.get_str("rtype", "i32");
            out[2] = doms.iter().position(|d| d.0 == lo && d.1 == len && d.2 == rt).unwrap_or(0) as u8;
        }
        _ => {
            let vs = variants(family, pn);
            let coll = case.get_str("coll", "tree");
            let val = case.get_str("val", "u64");
            out[0] = vs.iter().position(|v| v.0 == coll && (family == "key" || v.1 == val)).unwrap_or(0) as u8;
            let cap = case.get_i64("cap", 8);
            out[1] = if (0..200).contains(&cap) { cap as u8 } else { 200 + CAPS_WIDE.iter().position(|c| *c == cap).unwrap_or(0) as u8 };
            let us = if family == "key" { KEY_US } else { ORD_US };
            out[2] = us.iter().position(|u| *u == case.get_i64("U", 6)).unwrap_or(0) as u8;
            if case.get("clock0").is_some() {
                out[3] |= 1;
            }
            if case.get_str("mode", "") == "compound" {
                out[3] |= 2;
            }
        }
    }
    let table = kind_table(family, pn);
    for op in case.ops.iter().take(MAX_OPS) {
        let Some(sel) = table.iter().position(|k| *k == op.kind) else { continue };
        out.push(sel as u8);
        for a in op.args {
            out.extend_from_slice(&arg_bytes(a));
        }
    }
    out
}
